------------------------------ MODULE MC_Order ------------------------------
(***************************************************************************)
(* The value universe of property C12: values drawn with deliberate         *)
(* near-collisions (+0 / -0, same magnitude with different or absent units, *)
(* Refs differing only in display name, dicts differing in one key or one   *)
(* value, list prefixes, equal instants in different zones, the same        *)
(* payload under different kinds, grids differing only in meta / column     *)
(* meta / ver).  No NaN.  One state per value; emitted for the harness.     *)
(***************************************************************************)
EXTENDS HsUniverse, TLC, Json
VARIABLES v
T_(s) == CodePoints(s)
Num(n, u) == [k |-> "num", bits |-> F64OfNumeral(T_(n)), unit |-> u]
D(tags) == Dict(tags)
G(ver, meta, cols, rows) == Grid(T_(ver), meta, cols, rows)
\* dicts with one plain tag (a | b | c) and optionally one tag of a name the library gives a meaning to elsewhere (id, dis,
\* name), holding a low or a high value: an order that looks at such a tag first contradicts the order of the others
DictFam == LET plain == {a, b, T_("c")}
               special == {T_("id"), T_("dis"), T_("name")}
               vals == {Ref(T_("a"), <<>>), Ref(T_("z"), <<>>)}
               Two_(x, y) == IF TextCmp(x[1], y[1]) = -1 THEN <<x, y>> ELSE <<y, x>>
           IN {D(<<<<p, One>>>>) : p \in plain}
              \cup {D(Two_(<<p, One>>, <<sp, w>>)) : p \in plain, sp \in special, w \in vals}
Near ==
    { Num("0", <<>>), Num("-0", <<>>), Num("1", <<>>), Num("1", <<T_("m")>>), Num("1", <<T_("s")>>), Num("2", <<T_("m")>>), Num("-1", <<>>),
      Num("1", <<T_("kW")>>), Num("0", <<T_("m")>>), Num("-0", <<T_("m")>>), Num("1e21", <<>>),
      Ref(T_("r"), <<>>), Ref(T_("r"), <<T_("dis")>>), Ref(T_("r"), <<T_("other")>>), Ref(T_("s"), <<>>),
      Str(T_("x")), Uri(T_("x")), Symbol(T_("x")), XStr(T_("X"), T_("x")), XStr(T_("Y"), T_("x")), XStr(T_("X"), T_("y")), XStr(T_("x"), T_("x")), XStr(T_("Bin"), T_("x")), XStr(T_("bin"), T_("x")),
      Str(T_("X")), Symbol(T_("X")), Uri(T_("X")), Str(<<>>), Uri(<<>>),
      Str(T_("r")), Null, Marker, Remove, NA, Bool(TRUE), Bool(FALSE),
      D(<<<<a, One>>, <<b, One>>>>), D(<<<<a, N("2", <<>>)>>, <<b, One>>>>), D(<<<<a, One>>, <<T_("c"), N("0", <<>>)>>>>),
      D(<<<<a, N("2", <<>>)>>, <<T_("c"), N("0", <<>>)>>>>), D(<<>>), D(<<<<a, One>>>>), D(<<<<b, One>>>>), D(<<<<a, Num("0", <<>>)>>>>), D(<<<<a, Num("-0", <<>>)>>>>),
      D(<<<<a, Ref(T_("r"), <<>>)>>>>), D(<<<<a, Ref(T_("r"), <<T_("dis")>>)>>>>),
      List(<<>>), List(<<One>>), List(<<One, One>>), List(<<One, N("2", <<>>)>>), List(<<N("2", <<>>)>>), List(<<Num("0", <<>>)>>), List(<<Num("-0", <<>>)>>),
      List(<<Str(T_("x"))>>), List(<<List(<<>>)>>),
      Date(2021, 1, 1), Date(2021, 1, 2), Date(2020, 12, 31), Time(12, 0, 0, 0), Time(12, 0, 0, 1), Time(11, 59, 59, 999999999),
      DT(2021, 1, 15, 43200, 0, 0, "UTC"), DT(2021, 1, 15, 43200, 0, -18000, "New_York"), DT(2021, 1, 15, 43200, 0, 0, "London"),
      DT(2021, 1, 15, 43201, 0, 0, "UTC"), DT(2021, 1, 15, 43200, 1, -18000, "New_York"),
      Coord("0x0000000000000000", "0x0000000000000000"), Coord("0x8000000000000000", "0x0000000000000000"), Coord("0x0000000000000000", "0x8000000000000000"),
      Coord(F64OfNumeral(T_("1")), F64OfNumeral(T_("2"))), Coord(F64OfNumeral(T_("1")), F64OfNumeral(T_("3"))), Coord(F64OfNumeral(T_("2")), F64OfNumeral(T_("1"))),
      \* the neighbour family: payloads one small step apart (below any display or storage resolution one might round to)
      Coord(F64OfNumeral(T_("37.545826")), F64OfNumeral(T_("-77.449188"))), Coord(F64OfNumeral(T_("37.5458262")), F64OfNumeral(T_("-77.449188"))),
      Coord(F64OfNumeral(T_("37.545826")), F64OfNumeral(T_("-77.4491881"))), Coord("0x4042C5DDA6A44418", F64OfNumeral(T_("-77.449188"))),
      Num("1.0000000000000002", <<>>), Num("0.9999999999999999", <<>>), Num("1.0000001", <<T_("m")>>), Num("1e-7", <<>>), Num("1.1e-7", <<>>),
      Num("0.001", <<T_("s")>>), Num("0.0010000000000000002", <<T_("s")>>),
      Time(12, 0, 0, 999999), Time(12, 0, 0, 1000000), DT(2021, 1, 15, 43200, 999, 0, "UTC"),
      G("3.0", <<>>, <<Col(a, <<>>)>>, <<>>), G("3.0", <<<<T_("m"), Marker>>>>, <<Col(a, <<>>)>>, <<>>), G("3.0", <<>>, <<Col(a, <<<<T_("m"), Marker>>>>)>>, <<>>),
      G("2.0", <<>>, <<Col(a, <<>>)>>, <<>>), G("3.0", <<>>, <<Col(b, <<>>)>>, <<>>), G("3.0", <<>>, <<Col(a, <<>>)>>, <<<<<<a, One>>>>>>),
      G("3.0", <<>>, <<Col(a, <<>>)>>, <<<<<<a, Num("0", <<>>)>>>>>>), G("3.0", <<>>, <<Col(a, <<>>)>>, <<<<<<a, Num("-0", <<>>)>>>>>>),
      G("3.0", <<>>, <<Col(a, <<>>), Col(b, <<>>)>>, <<>>) }
    \cup DictFam
Init == v \in Near
Next == UNCHANGED v
Spec == Init /\ [][Next]_v
\* the universe really contains the near-collisions the property lists
HasNearCollisions ==
    /\ \E x, y \in Near : x.k = "num" /\ y.k = "num" /\ x.bits # y.bits /\ SameBits(x.bits, y.bits) /\ x.unit = y.unit
    /\ \E x, y \in Near : x.k = "num" /\ y.k = "num" /\ x.bits = y.bits /\ x.unit # y.unit
    /\ \E x, y \in Near : x.k = "ref" /\ y.k = "ref" /\ x.id = y.id /\ x.dis # y.dis
    /\ \E x, y \in Near : x.k = "dt" /\ y.k = "dt" /\ x.day = y.day /\ x.sod = y.sod /\ x.ns = y.ns /\ x.tz # y.tz
    /\ \E x, y \in Near : x.k # y.k /\ "s" \in DOMAIN x /\ "s" \in DOMAIN y /\ x.s = y.s
NoNaN == \A x \in Parts(v) : (x.k = "num" => F64Class(x.bits) # "nan") /\ (x.k = "coord" => F64Class(x.lat) # "nan" /\ F64Class(x.lng) # "nan")
Emit == PrintT("VEC " \o ToJson([v |-> [x \in DOMAIN v \ {"numeral"} |-> v[x]]]))
=============================================================================

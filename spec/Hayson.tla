------------------------------- MODULE Hayson -------------------------------
(***************************************************************************)
(* The Hayson (JSON) encoding of Project Haystack (docHaystack/Json),       *)
(* over JSON *trees* (object members are a sequence: order and spelling of  *)
(* numbers are visible):                                                    *)
(*   [j|->"null"] [j|->"bool", b] [j|->"num", lit] [j|->"str", s]           *)
(*   [j|->"arr", items] [j|->"obj", mem |-> <<<<name, tree>>, ...>>]        *)
(* lit is the number literal's text, s / name are decoded code points.      *)
(*   HaysonRead(tree)   total reader -> [ok, v] (read value as in Zinc.tla: *)
(*                      numerals, civil timestamps)                         *)
(*   HaysonWrite(v, st) writer parameterised by a style record              *)
(*   HaysonDenotes(tree, v)                                                 *)
(***************************************************************************)
EXTENDS Zinc

JNull == [j |-> "null"]
JBool(b) == [j |-> "bool", b |-> b]
JNum(lit) == [j |-> "num", lit |-> lit]
JStr(s) == [j |-> "str", s |-> s]
JArr(items) == [j |-> "arr", items |-> items]
JObj(mem) == [j |-> "obj", mem |-> mem]

KindKey == <<95, 107, 105, 110, 100>>          \* "_kind"
HasMem(o, name) == \E i \in 1..Len(o.mem) : o.mem[i][1] = name
\* the last member with that name (as JSON parsers do)
Mem(o, name) == o.mem[CHOOSE i \in 1..Len(o.mem) : o.mem[i][1] = name /\ \A k \in (i + 1)..Len(o.mem) : o.mem[k][1] # name][2]
StrMem(o, name) == HasMem(o, name) /\ Mem(o, name).j = "str"
OnlyMembers(o, names) == \A i \in 1..Len(o.mem) : o.mem[i][1] \in names

\* whole-text readers built from the Zinc scalar readers
WholeDate(s) == LET r == ReadDate(s, 1) IN IF r.ok /\ r.p = Len(s) + 1 THEN r ELSE Fail(1, "bad date")
WholeTime(s) == LET r == ReadTime(s, 1) IN IF r.ok /\ r.p = Len(s) + 1 THEN r ELSE Fail(1, "bad time")
\* RFC 3339: date "T" time ("Z" | (+|-)hh:mm)
ReadRfc3339(s) ==
    LET d == ReadDate(s, 1) IN
    IF ~d.ok THEN d
    ELSE IF At(s, d.p) \notin {84, 116} THEN Fail(d.p, "expected T")
    ELSE LET tm == ReadTime(s, d.p + 1) IN
    IF ~tm.ok THEN tm
    ELSE LET q == tm.p
             mk(off) == Ok([y |-> d.v.y, m |-> d.v.m, d |-> d.v.d, h |-> tm.v.h, mi |-> tm.v.mi, s |-> tm.v.s,
                            ns |-> tm.v.ns, off |-> off], 0)
         IN IF At(s, q) \in {90, 122} /\ q = Len(s) THEN mk(0)
            ELSE IF At(s, q) \in {43, 45} /\ D2(s, q + 1) >= 0 /\ At(s, q + 3) = 58 /\ D2(s, q + 4) >= 0 /\ q + 5 = Len(s)
                 THEN IF D2(s, q + 1) > 23 \/ D2(s, q + 4) > 59 THEN Fail(q, "bad offset")
                      ELSE mk((IF s[q] = 43 THEN 1 ELSE -1) * (D2(s, q + 1) * 3600 + D2(s, q + 4) * 60))
            ELSE Fail(q, "bad offset")

k_(s) == CodePoints(s)
ValKey == k_("val")

RECURSIVE HRead(_), HReadItems(_, _, _), HReadTags(_, _, _), HReadCols(_, _, _), HReadRows(_, _, _)

HFail(why) == [ok |-> FALSE, why |-> why]
HOk(v) == [ok |-> TRUE, v |-> v]

HReadNumber(o) ==
    IF ~OnlyMembers(o, {KindKey, ValKey, k_("unit")}) \/ ~HasMem(o, ValKey) THEN HFail("number members")
    ELSE LET val == Mem(o, ValKey)
             unit == IF HasMem(o, k_("unit")) THEN (IF StrMem(o, k_("unit")) THEN <<Mem(o, k_("unit")).s>> ELSE <<<<-1>>>>) ELSE <<>>
         IN IF unit = <<<<-1>>>> THEN HFail("unit not a string")
            ELSE IF val.j = "num" THEN HOk([k |-> "num", cls |-> "fin", numeral |-> val.lit, unit |-> unit])
            ELSE IF val.j = "str" /\ val.s = k_("INF") THEN HOk([k |-> "num", cls |-> "pinf", numeral |-> <<>>, unit |-> unit])
            ELSE IF val.j = "str" /\ val.s = k_("-INF") THEN HOk([k |-> "num", cls |-> "ninf", numeral |-> <<>>, unit |-> unit])
            ELSE IF val.j = "str" /\ val.s = k_("NaN") THEN HOk([k |-> "num", cls |-> "nan", numeral |-> <<>>, unit |-> unit])
            ELSE HFail("number val")

HReadDateTime(o) ==
    IF ~OnlyMembers(o, {KindKey, ValKey, k_("tz")}) \/ ~StrMem(o, ValKey) THEN HFail("dateTime members")
    ELSE LET r == ReadRfc3339(Mem(o, ValKey).s) IN
         IF ~r.ok THEN HFail("dateTime val")
         ELSE IF HasMem(o, k_("tz")) /\ ~StrMem(o, k_("tz")) THEN HFail("tz not a string")
         ELSE LET tz == IF HasMem(o, k_("tz")) THEN Mem(o, k_("tz")).s ELSE UTCText IN
              HOk([k |-> "dt", y |-> r.v.y, m |-> r.v.m, d |-> r.v.d, h |-> r.v.h, mi |-> r.v.mi, s |-> r.v.s,
                   ns |-> r.v.ns, off |-> r.v.off, tz |-> tz])

HReadGrid(o) ==
    IF ~OnlyMembers(o, {KindKey, k_("meta"), k_("cols"), k_("rows")}) THEN HFail("grid members")
    ELSE IF ~(HasMem(o, k_("cols")) /\ Mem(o, k_("cols")).j = "arr" /\ HasMem(o, k_("rows")) /\ Mem(o, k_("rows")).j = "arr")
         THEN HFail("grid cols/rows")
    ELSE IF HasMem(o, k_("meta")) /\ Mem(o, k_("meta")).j # "obj" THEN HFail("grid meta")
    ELSE LET metaAll == IF HasMem(o, k_("meta")) THEN HReadTags(Mem(o, k_("meta")).mem, 1, <<>>) ELSE HOk(<<>>) IN
         IF ~metaAll.ok THEN metaAll
         ELSE LET hasVer == TagsHas(metaAll.v, k_("ver"))
                  verV == IF hasVer THEN TagsGet(metaAll.v, k_("ver")) ELSE Str(k_("3.0"))
              IN IF verV.k # "str" THEN HFail("ver not a string")
                 ELSE LET cols == HReadCols(Mem(o, k_("cols")).items, 1, <<>>) IN
                      IF ~cols.ok THEN cols
                      ELSE LET rows == HReadRows(Mem(o, k_("rows")).items, 1, <<>>) IN
                           IF ~rows.ok THEN rows
                           ELSE HOk(Grid(verV.s, TagsRemove(metaAll.v, k_("ver")), cols.v, rows.v))

HRead(t) ==
    CASE t.j = "null" -> HOk(Null)
      [] t.j = "bool" -> HOk(Bool(t.b))
      [] t.j = "num" -> HOk([k |-> "num", cls |-> "fin", numeral |-> t.lit, unit |-> <<>>])
      [] t.j = "str" -> HOk(Str(t.s))
      [] t.j = "arr" -> HReadItems(t.items, 1, <<>>)
      [] t.j = "obj" ->
           IF ~HasMem(t, KindKey) THEN
              LET r == HReadTags(t.mem, 1, <<>>) IN IF r.ok THEN HOk(Dict(r.v)) ELSE r
           ELSE IF Mem(t, KindKey).j # "str" THEN HFail("_kind not a string")
           ELSE LET kind == Mem(t, KindKey).s IN
             CASE kind = k_("dict") ->
                    LET r == HReadTags(SelectSeq(t.mem, LAMBDA m : m[1] # KindKey), 1, <<>>) IN
                    IF r.ok THEN HOk(Dict(r.v)) ELSE r
               [] kind = k_("marker") -> IF OnlyMembers(t, {KindKey}) THEN HOk(Marker) ELSE HFail("marker members")
               [] kind = k_("na") -> IF OnlyMembers(t, {KindKey}) THEN HOk(NA) ELSE HFail("na members")
               [] kind = k_("remove") -> IF OnlyMembers(t, {KindKey}) THEN HOk(Remove) ELSE HFail("remove members")
               [] kind = k_("number") -> HReadNumber(t)
               [] kind = k_("ref") ->
                    IF OnlyMembers(t, {KindKey, ValKey, k_("dis")}) /\ StrMem(t, ValKey) /\ (HasMem(t, k_("dis")) => StrMem(t, k_("dis")))
                    THEN HOk(Ref(Mem(t, ValKey).s, IF HasMem(t, k_("dis")) THEN <<Mem(t, k_("dis")).s>> ELSE <<>>))
                    ELSE HFail("ref members")
               [] kind = k_("symbol") -> IF OnlyMembers(t, {KindKey, ValKey}) /\ StrMem(t, ValKey) THEN HOk(Symbol(Mem(t, ValKey).s)) ELSE HFail("symbol members")
               [] kind = k_("uri") -> IF OnlyMembers(t, {KindKey, ValKey}) /\ StrMem(t, ValKey) THEN HOk(Uri(Mem(t, ValKey).s)) ELSE HFail("uri members")
               [] kind = k_("date") ->
                    IF OnlyMembers(t, {KindKey, ValKey}) /\ StrMem(t, ValKey) /\ WholeDate(Mem(t, ValKey).s).ok
                    THEN HOk(WholeDate(Mem(t, ValKey).s).v) ELSE HFail("date")
               [] kind = k_("time") ->
                    IF OnlyMembers(t, {KindKey, ValKey}) /\ StrMem(t, ValKey) /\ WholeTime(Mem(t, ValKey).s).ok
                    THEN HOk(WholeTime(Mem(t, ValKey).s).v) ELSE HFail("time")
               [] kind = k_("dateTime") -> HReadDateTime(t)
               [] kind = k_("coord") ->
                    IF OnlyMembers(t, {KindKey, k_("lat"), k_("lng")}) /\ HasMem(t, k_("lat")) /\ HasMem(t, k_("lng"))
                       /\ Mem(t, k_("lat")).j = "num" /\ Mem(t, k_("lng")).j = "num"
                    THEN HOk([k |-> "coord", lat |-> Mem(t, k_("lat")).lit, lng |-> Mem(t, k_("lng")).lit])
                    ELSE HFail("coord members")
               [] kind = k_("xstr") ->
                    IF OnlyMembers(t, {KindKey, ValKey, k_("type")}) /\ StrMem(t, ValKey) /\ StrMem(t, k_("type"))
                    THEN HOk(XStr(Mem(t, k_("type")).s, Mem(t, ValKey).s)) ELSE HFail("xstr members")
               [] kind = k_("grid") -> HReadGrid(t)
               [] OTHER -> HFail("unknown _kind")
      [] OTHER -> HFail("not a JSON tree")

HReadItems(items, i, acc) ==
    IF i > Len(items) THEN HOk(List(acc))
    ELSE LET r == HRead(items[i]) IN IF ~r.ok THEN r ELSE HReadItems(items, i + 1, Append(acc, r.v))

\* members -> sorted tags (later duplicates overwrite)
HReadTags(mem, i, acc) ==
    IF i > Len(mem) THEN HOk(acc)
    ELSE LET r == HRead(mem[i][2]) IN IF ~r.ok THEN r ELSE HReadTags(mem, i + 1, TagsPut(acc, mem[i][1], r.v))

HReadCols(items, i, acc) ==
    IF i > Len(items) THEN HOk(acc)
    ELSE LET c == items[i] IN
         IF ~(c.j = "obj" /\ OnlyMembers(c, {k_("name"), k_("meta")}) /\ StrMem(c, k_("name"))) THEN HFail("column")
         ELSE IF HasMem(c, k_("meta")) /\ Mem(c, k_("meta")).j # "obj" THEN HFail("column meta")
         ELSE LET m == IF HasMem(c, k_("meta")) THEN HReadTags(Mem(c, k_("meta")).mem, 1, <<>>) ELSE HOk(<<>>) IN
              IF ~m.ok THEN m ELSE HReadCols(items, i + 1, Append(acc, Col(Mem(c, k_("name")).s, m.v)))

HReadRows(items, i, acc) ==
    IF i > Len(items) THEN HOk(acc)
    ELSE IF items[i].j # "obj" THEN HFail("row not an object")
    ELSE LET r == HRead(items[i]) IN
         IF ~r.ok THEN r
         ELSE IF r.v.k # "dict" THEN HFail("row not a dict")
         ELSE HReadRows(items, i + 1, Append(acc, r.v.tags))

HaysonRead(t) == HRead(t)
HaysonDenotes(t, v) == LET r == HRead(t) IN r.ok /\ Denotes(r.v, v)
HaysonWhyNot(t, v) == LET r == HRead(t) IN IF ~r.ok THEN <<"not Hayson", r.why>> ELSE <<"denotes another value">>

----------------------------------------------------------------------------
(***************************************************************************)
(* Writer. Style record:                                                    *)
(*   order : "fwd" | "rev" | "rot"  order of the members of every object    *)
(*   dictKind : write "_kind":"dict" on dicts                               *)
(*   meta : "absent" | "empty" | "ver"  how an empty grid meta is written;  *)
(*          a non-empty meta is written with "ver" iff meta = "ver"         *)
(*   utcTz : write "tz":"UTC" on UTC timestamps                             *)
(*   num  : spelling of numbers as in Zinc.SpellNumeral                     *)
(***************************************************************************)
Reorder(mem, order) ==
    CASE order = "rev" -> [i \in 1..Len(mem) |-> mem[Len(mem) + 1 - i]]
      [] order = "rot" -> IF Len(mem) <= 1 THEN mem ELSE SubSeq(mem, 2, Len(mem)) \o <<mem[1]>>
      [] OTHER -> mem
O(mem, st) == JObj(Reorder(mem, st.order))
Kind(name) == <<KindKey, JStr(k_(name))>>

Rfc3339Of(v) ==
    LET l == v.sod + v.off
        dshift == IF l < 0 THEN -1 ELSE IF l >= 86400 THEN 1 ELSE 0
        ls == l - dshift * 86400
        cd == CivilFromDays(v.day + dshift)
        ao == IF v.off < 0 THEN -v.off ELSE v.off
    IN WriteDate(cd.y, cd.m, cd.d) \o <<84>> \o WriteTime(ls \div 3600, (ls \div 60) % 60, ls % 60, v.ns)
       \o (IF v.off = 0 THEN <<90>> ELSE <<IF v.off < 0 THEN 45 ELSE 43>> \o Pad2(ao \div 3600) \o <<58>> \o Pad2((ao \div 60) % 60))

RECURSIVE HW(_, _, _), HWTags(_, _, _, _), HWItems(_, _, _, _)
\* JSON forbids leading zeros in the integer part ("01e-1"): drop them
RECURSIVE DropLeadingZeros(_)
DropLeadingZeros(n) ==
    IF Len(n) >= 1 /\ n[1] = 45 THEN <<45>> \o DropLeadingZeros(Tail(n))
    ELSE IF Len(n) >= 2 /\ n[1] = 48 /\ IsDigit(n[2]) THEN DropLeadingZeros(Tail(n))
    ELSE n
HWNumLit(v, st, i) == JNum(DropLeadingZeros(SpellNumeral(NumeralOf(v), st.num, i)))
HW(v, st, i) ==
    CASE v.k = "null" -> JNull
      [] v.k = "marker" -> O(<<Kind("marker")>>, st)
      [] v.k = "remove" -> O(<<Kind("remove")>>, st)
      [] v.k = "na" -> O(<<Kind("na")>>, st)
      [] v.k = "bool" -> JBool(v.b)
      [] v.k = "num" ->
           LET c == F64Class(v.bits)
               val == IF c = "nan" THEN JStr(k_("NaN")) ELSE IF c = "pinf" THEN JStr(k_("INF"))
                      ELSE IF c = "ninf" THEN JStr(k_("-INF")) ELSE HWNumLit(v, st, i)
           IN IF c = "fin" /\ v.unit = <<>> THEN val
              ELSE O(<<Kind("number"), <<ValKey, val>>>> \o (IF v.unit = <<>> THEN <<>> ELSE <<<<k_("unit"), JStr(v.unit[1])>>>>), st)
      [] v.k = "str" -> JStr(v.s)
      [] v.k = "uri" -> O(<<Kind("uri"), <<ValKey, JStr(v.s)>>>>, st)
      [] v.k = "symbol" -> O(<<Kind("symbol"), <<ValKey, JStr(v.s)>>>>, st)
      [] v.k = "ref" -> O(<<Kind("ref"), <<ValKey, JStr(v.id)>>>> \o (IF v.dis = <<>> THEN <<>> ELSE <<<<k_("dis"), JStr(v.dis[1])>>>>), st)
      [] v.k = "xstr" -> O(<<Kind("xstr"), <<k_("type"), JStr(v.t)>>, <<ValKey, JStr(v.s)>>>>, st)
      [] v.k = "date" -> O(<<Kind("date"), <<ValKey, JStr(WriteDate(v.y, v.m, v.d))>>>>, st)
      [] v.k = "time" -> O(<<Kind("time"), <<ValKey, JStr(WriteTime(v.h, v.mi, v.s, v.ns))>>>>, st)
      [] v.k = "dt" -> O(<<Kind("dateTime"), <<ValKey, JStr(Rfc3339Of(v))>>>>
                         \o (IF v.tz = UTCText /\ v.off = 0 /\ ~st.utcTz THEN <<>> ELSE <<<<k_("tz"), JStr(v.tz)>>>>), st)
      [] v.k = "coord" -> O(<<Kind("coord"), <<k_("lat"), JNum(ExactOfF64(v.lat))>>, <<k_("lng"), JNum(ExactOfF64(v.lng))>>>>, st)
      [] v.k = "list" -> JArr(HWItems(v.items, st, 1, i))
      [] v.k = "dict" -> O((IF st.dictKind THEN <<Kind("dict")>> ELSE <<>>) \o HWTags(v.tags, st, 1, i), st)
      [] v.k = "grid" ->
           \* the version lives in the meta; "3.0" is what an absent version means, any other version has to be written
           LET verMem == IF st.meta = "ver" \/ v.ver # k_("3.0") THEN <<<<k_("ver"), JStr(v.ver)>>>> ELSE <<>>
               metaMem == IF v.meta = <<>> /\ st.meta = "absent" /\ verMem = <<>> THEN <<>>
                          ELSE <<<<k_("meta"), O(verMem \o HWTags(v.meta, st, 1, i), st)>>>>
               cols == [c \in 1..Len(v.cols) |->
                          O(<<<<k_("name"), JStr(v.cols[c].name)>>>>
                            \o (IF v.cols[c].meta = <<>> THEN <<>> ELSE <<<<k_("meta"), O(HWTags(v.cols[c].meta, st, 1, i), st)>>>>), st)]
               rows == [r \in 1..Len(v.rows) |-> O(HWTags(v.rows[r], st, 1, i + r), st)]
           IN O(<<Kind("grid")>> \o metaMem \o <<<<k_("cols"), JArr(cols)>>, <<k_("rows"), JArr(rows)>>>>, st)

HWItems(items, st, j, i) == IF j > Len(items) THEN <<>> ELSE <<HW(items[j], st, i + j)>> \o HWItems(items, st, j + 1, i)
HWTags(tags, st, j, i) == IF j > Len(tags) THEN <<>> ELSE <<<<tags[j][1], HW(tags[j][2], st, i + j)>>>> \o HWTags(tags, st, j + 1, i)

HaysonWrite(v, st) == HW(v, st, 0)
HPlain == [order |-> "fwd", dictKind |-> FALSE, meta |-> "ver", utcTz |-> FALSE, num |-> "plain"]
=============================================================================

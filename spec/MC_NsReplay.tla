----------------------------- MODULE MC_NsReplay -----------------------------
(***************************************************************************)
(* Interleavings of the cache protocol for replay in the real namespace     *)
(* (C14, specification -> implementation): NsCache with a history variable  *)
(* that records, for every step that touches a cache map - the get /        *)
(* contains / insert of the SUPOF / INH protocol and every guard drop -     *)
(* which thread touched which map with which key.  TLC runs it in           *)
(* simulation mode; each finished behaviour is emitted with its programs,   *)
(* its shard assignment, the history and the answers.  The harness forces   *)
(* the same shard assignment on the real dashmaps, holds every real thread  *)
(* at the hook's gate and releases them one touch at a time in the recorded *)
(* order, checking that the touch the implementation is about to make is    *)
(* the one the model made.                                                  *)
(***************************************************************************)
EXTENDS NsCache, Json
VARIABLE hist
\* diamond a -> {b, c} -> d, an undefined supertype u of c, and a root r above c only (an ancestor b does not share) (as MC_NsCache)
MCSyms == {"a", "b", "c", "d", "r", "u"}
MCGraph == [x \in {"a", "b", "c", "d", "r"} |-> CASE x = "a" -> {"b", "c"} [] x = "b" -> {"d"} [] x = "c" -> {"d", "r", "u"} [] OTHER -> {}]
Qs == {<<"sup", "a">>, <<"allsup", "a">>, <<"inh", "a">>, <<"inh", "b">>, <<"fits", "a", "d">>, <<"inh", "u">>, <<"fits", "c", "u">>, <<"inh", "c">>}
ProgsR == {<<q>> : q \in Qs} \cup {<<q1, q2>> : q1, q2 \in Qs}
ProgsR1 == {<<q>> : q \in Qs}          \* for three threads (the set of initial states must stay enumerable)
MCThreads == {"t1", "t2"}
MCThreads3 == {"t1", "t2", "t3"}

\* the implementation iterates `is` lists in their written order; the replayed graph writes them in this rank order
Rank == [x \in MCSyms |-> CASE x = "a" -> 1 [] x = "b" -> 2 [] x = "c" -> 3 [] x = "d" -> 4 [] x = "r" -> 5 [] OTHER -> 6]
RECURSIVE RankedSeqOf(_)
RankedSeqOf(S) == IF S = {} THEN <<>> ELSE LET x == CHOOSE y \in S : \A z \in S : Rank[y] <= Rank[z] IN <<x>> \o RankedSeqOf(S \ {x})

Touch(t, kind, m, k) == [t |-> t, kind |-> kind, map |-> m, key |-> k]
\* the cache touch thread t makes in its next step, or <<>> (exactly one action of a thread is enabled at a time)
Label(t) ==
    IF stack[t] = <<>> THEN <<>>
    ELSE LET f == Top(t) IN
         IF f.p \in {"SUPOF", "INH"} /\ f.pc \in {"start", "get2"} THEN <<Touch(t, "get", MapOf(f), f.k)>>
         ELSE IF f.p \in {"SUPOF", "INH"} /\ f.pc = "contains" THEN <<Touch(t, "contains", MapOf(f), f.k)>>
         ELSE IF f.p \in {"SUPOF", "INH"} /\ f.pc = "insert" THEN <<Touch(t, "insert", MapOf(f), f.k)>>
         ELSE IF ((f.p = "ALLSUP" /\ f.pc \in {"first", "visited"}) \/ (f.pc = "back" /\ f.p \in {"QSUP", "QALLSUP", "QINH", "QFITS"}))
                 /\ ret[t].g # NoGuard /\ ~(KeepFirstGuard /\ f.pc = "first")
              THEN <<Touch(t, "drop", ret[t].g[1], "")>>
         ELSE <<>>

HInit == Init /\ hist = <<>>
HNext == \E t \in Threads : Step(t) /\ hist' = hist \o Label(t)
HSpec == HInit /\ [][HNext]_<<vars, hist>>

Emit == AllDone =>
          PrintT("VEC " \o ToJson([op |-> "ns.replay", progs |-> prog, shard |-> shard, steps |-> hist, results |-> results]))
=============================================================================

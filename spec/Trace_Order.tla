----------------------------- MODULE Trace_Order -----------------------------
(***************************************************************************)
(* C12: the laws of equality, hashing and ordering, stated once over the    *)
(* relation observed on the implementation.  ord.row events carry, for      *)
(* element i of the universe, the rows of the == / != / cmp / partial_cmp   *)
(* matrices against every element, its hashes under two independently       *)
(* keyed hashers, and whether its clone equals it; ord.end closes a         *)
(* universe and carries the sizes of a HashSet, a BTreeSet and of           *)
(* sort + dedup built from it.  The laws are then checked by exhaustive     *)
(* quantification over all pairs and triples.                               *)
(***************************************************************************)
EXTENDS HsCore, TraceBase, FiniteSetsExt

VARIABLES l, nbad, rows

N == Len(rows)
Eq(i, j) == rows[i].eq[j]
Cmp(i, j) == rows[i].cmp[j]
PCmp(i, j) == rows[i].pcmp[j]          \* 2 = None
Witness(S) == IF S = {} THEN <<>> ELSE LET w == CHOOSE x \in S : TRUE IN <<w, rows[w[1]].v.k, rows[w[2]].v.k>>
Law(name, S) == IF S = {} THEN <<>> ELSE <<<<"C12", <<name, Cardinality(S), Witness(S)>>>>>>
Pairs == (1..N) \X (1..N)
\* number of == classes: elements not equal to any earlier element
Classes == Cardinality({i \in 1..N : \A j \in 1..(i - 1) : ~Eq(i, j)})

Laws(e) ==
    Law("equality is not reflexive", {p \in Pairs : p[1] = p[2] /\ ~Eq(p[1], p[2])})
    \o Law("equality is not symmetric", {p \in Pairs : Eq(p[1], p[2]) /\ ~Eq(p[2], p[1])})
    \o Law("!= is not the negation of ==", {p \in Pairs : rows[p[1]].ne[p[2]] = Eq(p[1], p[2])})
    \o Law("equality is not transitive", {p \in Pairs : Eq(p[1], p[2]) /\ \E k \in 1..N : Eq(p[2], k) /\ ~Eq(p[1], k)})
    \o Law("a clone differs from its original", {p \in Pairs : p[1] = p[2] /\ ~rows[p[1]].clone_eq})
    \o Law("equal values with different hashes", {p \in Pairs : Eq(p[1], p[2]) /\ rows[p[1]].hash # rows[p[2]].hash})
    \o Law("total order not antisymmetric", {p \in Pairs : Cmp(p[1], p[2]) # 0 - Cmp(p[2], p[1])})
    \o Law("total order not transitive", {p \in Pairs : Cmp(p[1], p[2]) <= 0 /\ \E k \in 1..N : Cmp(p[2], k) <= 0 /\ Cmp(p[1], k) > 0})
    \o Law("total order calls unequal values equal", {p \in Pairs : Cmp(p[1], p[2]) = 0 /\ ~Eq(p[1], p[2])})
    \o Law("total order separates equal values", {p \in Pairs : Eq(p[1], p[2]) /\ Cmp(p[1], p[2]) # 0})
    \o Law("partial order contradicts the total order", {p \in Pairs : PCmp(p[1], p[2]) # 2 /\ PCmp(p[1], p[2]) # Cmp(p[1], p[2])})
    \o Need(e.hashset = Classes, "C12", <<"HashSet size differs from the number of equality classes", e.hashset, Classes>>)
    \o Need(e.btreeset = Classes, "C12", <<"BTreeSet size differs from the number of equality classes", e.btreeset, Classes>>)
    \o Need(e.sortdedup = Classes, "C12", <<"sort + dedup size differs from the number of equality classes", e.sortdedup, Classes>>)
    \o Need(e.monitor = "ok", "C12", <<"panic while comparing / hashing", e.monitor>>)

Check(e) == CASE e.op = "ord.row" -> Need(Len(e.eq) = Len(e.cmp) /\ e.idx = Len(rows) + 1, "SPEC", <<"malformed row">>)
              [] e.op = "ord.end" -> IF e.n # N THEN <<<<"SPEC", <<"rows missing", e.n, N>>>>>> ELSE Laws(e)
              [] OTHER -> <<<<"SPEC", <<"unknown op", e.op>>>>>>

Init == l = 1 /\ nbad = 0 /\ rows = <<>>
Next == \/ /\ l <= Len(Rec)
           /\ LET e == Rec[l]
                  r == Check(e)
              IN /\ Report(e.i, r, 1) /\ nbad' = nbad + Len(r)
                 /\ rows' = IF e.op = "ord.row" THEN Append(rows, e) ELSE <<>>
           /\ l' = l + 1
        \/ /\ l = Len(Rec) + 1
           /\ PrintT("CONSUMED " \o ToString(Len(Rec)) \o " " \o ToString(nbad))
           /\ l' = l + 1 /\ UNCHANGED <<nbad, rows>>
Spec == Init /\ [][Next]_<<l, nbad, rows>>
=============================================================================

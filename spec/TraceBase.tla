----------------------------- MODULE TraceBase -----------------------------
(***************************************************************************)
(* Shared skeleton of the trace specifications.  The harness logs one JSON  *)
(* event per line (file named by environment variable TRACE).  The trace    *)
(* spec consumes one event per step and never blocks: an event the          *)
(* specification does not allow is reported as                              *)
(*      "BAD <property> <event number> <reason>"                            *)
(* and the rest of the trace is still checked.  The final step prints       *)
(*      "CONSUMED <n> <nbad>"                                               *)
(* which the driver requires to equal the number of logged events - a trace *)
(* spec that stops early can therefore never pass.                          *)
(***************************************************************************)
EXTENDS Integers, Sequences, TLC, Json, IOUtils

Rec == ndJsonDeserialize(IOEnv.TRACE)

\* reasons is a sequence of <<property id, reason>> pairs; prints each, yields their number
RECURSIVE Report(_, _, _)
Report(i, reasons, n) ==
    IF n > Len(reasons) THEN TRUE
    ELSE PrintT("BAD " \o reasons[n][1] \o " " \o ToString(i) \o " " \o ToString(reasons[n][2])) /\ Report(i, reasons, n + 1)

\* helper: <<>> if cond holds, else one reason
Need(cond, prop, reason) == IF cond THEN <<>> ELSE <<<<prop, reason>>>>
=============================================================================

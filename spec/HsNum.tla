------------------------------- MODULE HsNum -------------------------------
(***************************************************************************)
(* Exact decimal arithmetic and IEEE-754 binary64 facts.                    *)
(*                                                                          *)
(* TLC has 32-bit integers and no reals.  The laws that use numbers are     *)
(* written in TLA+ (Zinc, Hayson, Units, OrderLaws ...); the arithmetic     *)
(* primitives below are evaluated by the Java module override               *)
(* spec/overrides/HsOverrides.java (java.math.BigDecimal, Double bits).     *)
(* Without the override TLC fails on the CHOOSE bodies - there is no        *)
(* silent fallback.                                                         *)
(*                                                                          *)
(* A "numeral" is a sequence of code points spelling a decimal number:      *)
(*    ["-"] digits ["." digits] [("e"|"E") ["+"|"-"] digits]                *)
(* "bits" is a TLA+ string "0x" followed by 16 lower-case hex digits: the   *)
(* IEEE-754 binary64 bit pattern.                                           *)
(***************************************************************************)
EXTENDS Integers, Sequences

\* TRUE iff the real denoted by numeral rounds (nearest, ties to even) to bits
RoundsToF64(numeral, bits) == CHOOSE b \in BOOLEAN : TRUE
\* the bits the numeral rounds to
F64OfNumeral(numeral) == CHOOSE s \in STRING : TRUE
\* exact decimal expansion of a finite double, as a numeral (plain, no exponent)
ExactOfF64(bits) == CHOOSE s \in Seq(Nat) : TRUE
\* "fin" | "nan" | "pinf" | "ninf"
F64Class(bits) == CHOOSE s \in STRING : TRUE
\* IEEE comparison: -1, 0, 1, or 2 when unordered (NaN)
F64Cmp(a, b) == CHOOSE i \in -1..2 : TRUE
\* IEEE arithmetic on bit patterns; op \in {"add","sub","mul","div"}
F64Arith(op, a, b) == CHOOSE s \in STRING : TRUE
\* exact comparison of two numerals: -1, 0, 1
DecCmp(a, b) == CHOOSE i \in -1..1 : TRUE
DecAdd(a, b) == CHOOSE s \in Seq(Nat) : TRUE
DecSub(a, b) == CHOOSE s \in Seq(Nat) : TRUE
DecMul(a, b) == CHOOSE s \in Seq(Nat) : TRUE
\* quotient rounded to 60 significant digits
DecDiv(a, b) == CHOOSE s \in Seq(Nat) : TRUE
\* |a - b| <= tol * max(1, |b|), all three numerals
DecWithin(a, b, tol) == CHOOSE x \in BOOLEAN : TRUE
\* TRUE iff the sequence of code points is a numeral as defined above
IsNumeral(s) == CHOOSE x \in BOOLEAN : TRUE
\* code points of a TLA+ string / TLA+ string of ASCII code points
CodePoints(str) == CHOOSE s \in Seq(Nat) : TRUE
StringOf(cps) == CHOOSE s \in STRING : TRUE
\* decimal spelling of an integer as code points (and back)
IntToCps(i) == CHOOSE s \in Seq(Nat) : TRUE
=============================================================================

------------------------------- MODULE NsCache -------------------------------
(***************************************************************************)
(* The two lazily filled caches of the def namespace (supertypes_of_cache,  *)
(* inheritance_of_cache: sharded concurrent maps whose `get` returns a read *)
(* guard on the shard) under concurrent queries - property C14.             *)
(*                                                                          *)
(* One action per cache touch of the query procedures, transcribed from     *)
(* defs/namespace.rs (DESIGN.md A.4):                                       *)
(*   SUPOF(k) : s1 get (hit: return the guard) - s2 compute - s3 contains - *)
(*              s4 insert if absent - s5 get (must hit) and return guard    *)
(*   ALLSUP(k): a1 SUPOF(k), clone, drop guard; a2 loop over a stack of     *)
(*              vectors: for each def d: SUPOF(d), push clone if non-empty, *)
(*              drop guard                                                  *)
(*   INH(k)   : i1 get (hit: return guard) - i2 {k} + ALLSUP(k) holding no  *)
(*              guard - i3 contains - i4 insert - i5 get and return guard   *)
(*   FITS(a,b): INH(a), test membership, drop guard                         *)
(* Locks: a shard is read-locked while a guard on it exists; insert needs   *)
(* the shard without readers.  With WriterPref, a blocked insert blocks     *)
(* new readers of that shard (the discipline that makes re-entrant reads    *)
(* deadlock).  The shard of a key is not under our control: every           *)
(* assignment Syms -> 1..NShards is explored.                               *)
(*                                                                          *)
(* Checked: AnswerCorrect (every result = the pure graph answer, whatever   *)
(* ran before or concurrently), CacheCoherent (a present entry is the pure  *)
(* value - never a partial one), NoReentry (no lock request on a map while  *)
(* holding a guard of that map), NoPanic (the s5/i5 get finds the entry),   *)
(* deadlock freedom (TLC), Termination (under weak fairness).               *)
(***************************************************************************)
EXTENDS Integers, Sequences, FiniteSets, TLC

CONSTANTS Threads, Syms, Graph, NShards, WriterPref, Programs, KeepFirstGuard
\* KeepFirstGuard = TRUE is the negative control: all_supertypes_of keeps the guard of its first lookup across the loop
\* Graph: function Syms -> SUBSET Syms (`is` lists; symbols not in DOMAIN Graph are undefined)
\* Programs: set of admissible programs (sequences of queries <<"sup"|"allsup"|"inh", k>> or <<"fits", a, b>>)

VARIABLES cache, held, stack, ret, prog, results, shard, panicked
vars == <<cache, held, stack, ret, prog, results, shard, panicked>>

Defined == DOMAIN Graph
Sup(k) == IF k \in Defined THEN {s \in Graph[k] : s \in Defined} ELSE {}
RECURSIVE Up(_, _)
Up(frontier, acc) == LET nxt == (UNION {Sup(d) : d \in frontier}) \ acc IN IF nxt = {} THEN acc ELSE Up(nxt, acc \cup nxt)
AllSup(k) == Up({k}, {})
Inh(k) == IF k \in Defined THEN {k} \cup AllSup(k) ELSE {}
Fits(a, b) == b \in Defined /\ b \in Inh(a)
Pure(q) == CASE q[1] = "sup" -> Sup(q[2]) [] q[1] = "allsup" -> AllSup(q[2]) [] q[1] = "inh" -> Inh(q[2]) [] q[1] = "fits" -> Fits(q[2], q[3])

NoVal == [has |-> FALSE, v |-> {}]
Maps == {"SUP", "INH"}
NoGuard == <<>>

\* deterministic enumeration order of a set (the implementation iterates vectors; any order gives the same sets)
RECURSIVE SeqOf(_)
SeqOf(S) == IF S = {} THEN <<>> ELSE LET x == CHOOSE y \in S : TRUE IN <<x>> \o SeqOf(S \ {x})

Frame(p, k) == [p |-> p, k |-> k, pc |-> "start", v |-> {}, acc |-> {}, vec |-> <<>>, stk |-> <<>>, b |-> k]

TypeInit ==
    /\ cache = [m \in Maps |-> [k \in Syms |-> NoVal]]
    /\ held = [t \in Threads |-> <<>>]                  \* guards: sequence of <<map, shard>>
    /\ stack = [t \in Threads |-> <<>>]
    /\ ret = [t \in Threads |-> [val |-> {}, g |-> NoGuard]]
    /\ prog \in [Threads -> Programs]
    /\ results = [t \in Threads |-> <<>>]
    /\ shard \in [Syms -> 1..NShards]
    /\ panicked = FALSE
Init == TypeInit

\* ---- locks ----
Readers(m, sh) == {t \in Threads : \E i \in 1..Len(held[t]) : held[t][i] = <<m, sh>>}
\* a thread whose next step is an insert into (m, sh) that cannot proceed is a waiting writer
AtInsert(t, m, sh) == stack[t] # <<>> /\ LET f == stack[t][Len(stack[t])] IN
                        /\ f.pc = "insert"
                        /\ m = (IF f.p = "SUPOF" THEN "SUP" ELSE "INH")
                        /\ shard[f.k] = sh
WaitingWriters(m, sh) == {t \in Threads : AtInsert(t, m, sh) /\ Readers(m, sh) # {}}
CanRead(t, m, sh) == ~WriterPref \/ WaitingWriters(m, sh) \ {t} = {}
CanWrite(t, m, sh) == Readers(m, sh) = {}

Top(t) == stack[t][Len(stack[t])]
SetTop(t, f) == [stack EXCEPT ![t] = [@ EXCEPT ![Len(@)] = f]]
Pop(t) == [stack EXCEPT ![t] = SubSeq(@, 1, Len(@) - 1)]
Push(t, f, g) == [stack EXCEPT ![t] = Append([@ EXCEPT ![Len(@)] = f], g)]
MapOf(f) == IF f.p = "SUPOF" THEN "SUP" ELSE "INH"
DropGuard(t, g) == IF g = NoGuard THEN held
                   ELSE LET i == CHOOSE j \in 1..Len(held[t]) : held[t][j] = g IN
                        [held EXCEPT ![t] = SubSeq(@, 1, i - 1) \o SubSeq(@, i + 1, Len(@))]

\* ---- starting a query ----
Start(t) ==
    /\ stack[t] = <<>> /\ Len(results[t]) < Len(prog[t])
    /\ LET q == prog[t][Len(results[t]) + 1] IN
       stack' = [stack EXCEPT ![t] = << CASE q[1] = "sup" -> Frame("QSUP", q[2]) [] q[1] = "allsup" -> Frame("QALLSUP", q[2])
                                          [] q[1] = "inh" -> Frame("QINH", q[2]) [] q[1] = "fits" -> [Frame("QFITS", q[2]) EXCEPT !.b = q[3]] >>]
    /\ UNCHANGED <<cache, held, ret, prog, results, shard, panicked>>

Finish(t, answer) ==
    /\ results' = [results EXCEPT ![t] = Append(@, answer)]
    /\ stack' = [stack EXCEPT ![t] = <<>>]

\* ---- the shared get / contains / insert / get protocol of both caches ----
\* first get: hit returns the guard to the caller, miss goes on to compute
Get1(t, f) ==
    LET m == MapOf(f)  sh == shard[f.k] IN
    /\ f.pc = "start" /\ f.p \in {"SUPOF", "INH"}
    /\ CanRead(t, m, sh)
    /\ IF cache[m][f.k].has
       THEN /\ ret' = [ret EXCEPT ![t] = [val |-> cache[m][f.k].v, g |-> <<m, sh>>]]
            /\ held' = [held EXCEPT ![t] = Append(@, <<m, sh>>)]
            /\ stack' = Pop(t)
       ELSE /\ stack' = SetTop(t, [f EXCEPT !.pc = "compute"])
            /\ UNCHANGED <<ret, held>>
    /\ UNCHANGED <<cache, prog, results, shard, panicked>>

ComputeSup(t, f) ==
    /\ f.p = "SUPOF" /\ f.pc = "compute"
    /\ stack' = SetTop(t, [f EXCEPT !.v = Sup(f.k), !.pc = "contains"])
    /\ UNCHANGED <<cache, held, ret, prog, results, shard, panicked>>

\* inheritance: {k} + all_supertypes_of(k), computed while holding no guard
ComputeInh(t, f) ==
    /\ f.p = "INH" /\ f.pc = "compute"
    /\ IF f.k \in Defined
       THEN stack' = Push(t, [f EXCEPT !.pc = "computed"], Frame("ALLSUP", f.k))
       ELSE stack' = SetTop(t, [f EXCEPT !.v = {}, !.pc = "contains"])
    /\ UNCHANGED <<cache, held, ret, prog, results, shard, panicked>>
ComputedInh(t, f) ==
    /\ f.p = "INH" /\ f.pc = "computed"
    /\ stack' = SetTop(t, [f EXCEPT !.v = {f.k} \cup ret[t].val, !.pc = "contains"])
    /\ UNCHANGED <<cache, held, ret, prog, results, shard, panicked>>

Contains(t, f) ==
    LET m == MapOf(f)  sh == shard[f.k] IN
    /\ f.pc = "contains" /\ f.p \in {"SUPOF", "INH"}
    /\ CanRead(t, m, sh)
    /\ stack' = SetTop(t, [f EXCEPT !.pc = IF cache[m][f.k].has THEN "get2" ELSE "insert"])
    /\ UNCHANGED <<cache, held, ret, prog, results, shard, panicked>>

Insert(t, f) ==
    LET m == MapOf(f)  sh == shard[f.k] IN
    /\ f.pc = "insert" /\ f.p \in {"SUPOF", "INH"}
    /\ CanWrite(t, m, sh)
    /\ cache' = [cache EXCEPT ![m][f.k] = [has |-> TRUE, v |-> f.v]]
    /\ stack' = SetTop(t, [f EXCEPT !.pc = "get2"])
    /\ UNCHANGED <<held, ret, prog, results, shard, panicked>>

Get2(t, f) ==
    LET m == MapOf(f)  sh == shard[f.k] IN
    /\ f.pc = "get2" /\ f.p \in {"SUPOF", "INH"}
    /\ CanRead(t, m, sh)
    /\ IF ~cache[m][f.k].has
       THEN panicked' = TRUE /\ UNCHANGED <<ret, held, stack>>              \* .expect("Cached value")
       ELSE /\ ret' = [ret EXCEPT ![t] = [val |-> cache[m][f.k].v, g |-> <<m, sh>>]]
            /\ held' = [held EXCEPT ![t] = Append(@, <<m, sh>>)]
            /\ stack' = Pop(t)
            /\ UNCHANGED panicked
    /\ UNCHANGED <<cache, prog, results, shard>>

\* ---- all_supertypes_of ----
AllSupStart(t, f) ==
    /\ f.p = "ALLSUP" /\ f.pc = "start"
    /\ stack' = Push(t, [f EXCEPT !.pc = "first"], Frame("SUPOF", f.k))
    /\ UNCHANGED <<cache, held, ret, prog, results, shard, panicked>>
\* clone the first vector, drop its guard
AllSupFirst(t, f) ==
    /\ f.p = "ALLSUP" /\ f.pc = "first"
    /\ held' = IF KeepFirstGuard THEN held ELSE DropGuard(t, ret[t].g)
    /\ stack' = SetTop(t, [f EXCEPT !.stk = <<SeqOf(ret[t].val)>>, !.vec = <<>>, !.pc = "loop"])
    /\ UNCHANGED <<cache, ret, prog, results, shard, panicked>>
\* next def of the current vector, or pop the next vector, or done
AllSupLoop(t, f) ==
    /\ f.p = "ALLSUP" /\ f.pc = "loop"
    /\ IF f.vec # <<>>
       THEN LET d == Head(f.vec) IN
            stack' = Push(t, [f EXCEPT !.acc = @ \cup {d}, !.vec = Tail(@), !.pc = "visited"], Frame("SUPOF", d))
       ELSE IF f.stk # <<>>
       THEN stack' = SetTop(t, [f EXCEPT !.vec = f.stk[Len(f.stk)], !.stk = SubSeq(@, 1, Len(@) - 1)])
       ELSE stack' = Pop(t)
    /\ ret' = IF f.vec = <<>> /\ f.stk = <<>> THEN [ret EXCEPT ![t] = [val |-> f.acc, g |-> NoGuard]] ELSE ret
    /\ UNCHANGED <<cache, held, prog, results, shard, panicked>>
\* back from supertypes_of(d): push a clone if non-empty, guard dropped at the end of the iteration
AllSupVisited(t, f) ==
    /\ f.p = "ALLSUP" /\ f.pc = "visited"
    /\ held' = DropGuard(t, ret[t].g)
    /\ stack' = SetTop(t, [f EXCEPT !.stk = IF ret[t].val # {} THEN Append(@, SeqOf(ret[t].val)) ELSE @, !.pc = "loop"])
    /\ UNCHANGED <<cache, ret, prog, results, shard, panicked>>

\* ---- query wrappers ----
QStart(t, f) ==
    /\ f.pc = "start" /\ f.p \in {"QSUP", "QALLSUP", "QINH", "QFITS"}
    /\ IF f.p = "QFITS" /\ f.b \notin Defined
       THEN \* fits looks the base up first: an undefined base is answered without touching a cache
            Finish(t, FALSE)
       ELSE /\ stack' = Push(t, [f EXCEPT !.pc = "back"],
                             CASE f.p = "QSUP" -> Frame("SUPOF", f.k) [] f.p = "QALLSUP" -> Frame("ALLSUP", f.k) [] OTHER -> Frame("INH", f.k))
            /\ UNCHANGED results
    /\ UNCHANGED <<cache, held, ret, prog, shard, panicked>>
QBack(t, f) ==
    /\ f.pc = "back" /\ f.p \in {"QSUP", "QALLSUP", "QINH", "QFITS"}
    /\ held' = DropGuard(t, ret[t].g)
    /\ Finish(t, IF f.p = "QFITS" THEN (f.b \in Defined /\ f.b \in ret[t].val) ELSE ret[t].val)
    /\ UNCHANGED <<cache, ret, prog, shard, panicked>>

Step(t) ==
    \/ Start(t)
    \/ /\ stack[t] # <<>>
       /\ LET f == Top(t) IN
          \/ Get1(t, f) \/ ComputeSup(t, f) \/ ComputeInh(t, f) \/ ComputedInh(t, f) \/ Contains(t, f) \/ Insert(t, f) \/ Get2(t, f)
          \/ AllSupStart(t, f) \/ AllSupFirst(t, f) \/ AllSupLoop(t, f) \/ AllSupVisited(t, f)
          \/ QStart(t, f) \/ QBack(t, f)

AllDone == \A t \in Threads : stack[t] = <<>> /\ Len(results[t]) = Len(prog[t])
Next == (\E t \in Threads : Step(t)) \/ (AllDone /\ UNCHANGED vars) \/ (panicked /\ UNCHANGED vars)
Spec == Init /\ [][Next]_vars /\ \A t \in Threads : WF_vars(Step(t))

----------------------------------------------------------------------------
AnswerCorrect == \A t \in Threads : \A i \in 1..Len(results[t]) : results[t][i] = Pure(prog[t][i])
CacheCoherent == \A k \in Syms : /\ (cache["SUP"][k].has => cache["SUP"][k].v = Sup(k))
                                 /\ (cache["INH"][k].has => cache["INH"][k].v = Inh(k))
NoPanic == ~panicked
\* a thread about to take a lock on a map holds no guard of that map
LockPcs == {"start", "contains", "insert", "get2"}
NoReentry == \A t \in Threads : stack[t] # <<>> =>
                LET f == Top(t) IN
                (f.p \in {"SUPOF", "INH"} /\ f.pc \in LockPcs) => \A i \in 1..Len(held[t]) : held[t][i][1] # MapOf(f)
GuardsReleased == AllDone => \A t \in Threads : held[t] = <<>>
Termination == <>(AllDone \/ panicked)
=============================================================================

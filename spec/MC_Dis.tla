------------------------------- MODULE MC_Dis -------------------------------
(***************************************************************************)
(* Mode "macro": every pattern of length <= MaxLen over                     *)
(*   $ { } < > a B 1 _ space e-acute   (TLC checks: text without $ is      *)
(*   unchanged; the scanner is total; at most two admissible outputs)       *)
(* Mode "rec": presence patterns of the eight display tags with the kinds   *)
(*   Str / Number / Ref+-dis / Marker / Bool for the two highest-priority   *)
(*   present tags.                                                          *)
(***************************************************************************)
EXTENDS Dis, TLC, Json
CONSTANTS Mode, MaxLen
VARIABLES x
Alphabet == {36, 123, 125, 60, 62, 97, 66, 49, 95, 32, 233}
T(s) == CodePoints(s)
ScopeTags == <<<<T("a"), T("[A]")>>, <<T("aa"), T("[AA]")>>, <<T("aB1"), T("$aa")>>, <<T("a_"), T("")>>>>
ScopeLoc == <<<<T("a"), T("(a)")>>, <<T("aa::B"), T("${aa}")>>, <<T(" "), T("sp")>>>>

Vals == {Str(T("text")), Str(T("$name and ${navName}")), [k |-> "num", bits |-> F64OfNumeral(T("42")), unit |-> <<>>], Ref(T("r1"), <<>>), Ref(T("r1"), <<T("Ref Dis")>>), Marker, Bool(TRUE)}
RECURSIVE RecsFrom(_, _)
\* for the tags from index i on: absent, or present - the two highest-priority present tags range over all value kinds,
\* lower ones are a Str (so that precedence between any two tags meets every kind)
RecsFrom(i, np) == IF i > Len(DisPrecedence) THEN {<<>>}
                   ELSE RecsFrom(i + 1, np)
                        \cup {TagsPut(r, DisPrecedence[i], v) : r \in RecsFrom(i + 1, np + 1), v \in IF np < 2 THEN Vals ELSE {Str(T("low"))}}
Init == IF Mode = "macro" THEN x = <<>> ELSE x \in RecsFrom(1, 0)
Next == Mode = "macro" /\ Len(x) < MaxLen /\ \E c \in Alphabet : x' = Append(x, c)
Spec == Init /\ [][Next]_x

MacroLaws == Mode = "macro" =>
    /\ (NoDollar(x) => Macro(x, ScopeTags, ScopeLoc) = {x})
    /\ Macro(x, <<>>, <<>>) = {x}                       \* nothing resolves: verbatim
    /\ Cardinality(Macro(x, ScopeTags, ScopeLoc)) \in {1, 2}
Emit == IF Mode = "macro" THEN PrintT("VEC " \o ToJson([op |-> "dis.macro", pattern |-> x]))
        ELSE PrintT("VEC " \o ToJson([op |-> "dis.rec", rec |-> x]))
=============================================================================

---------------------------- MODULE Trace_Filter ----------------------------
(***************************************************************************)
(* Validates recorded filter executions of libhaystack against Filter.tla   *)
(*  filter.parse : spec spelled filter f as text; libhaystack parsed it     *)
(*      C08  outcome ok /\ tree = f; printed text parses (by the TLA+       *)
(*           parser) to the same tree; libhaystack's re-parse of its own    *)
(*           print = tree                                                   *)
(*      C09  outcome is ok or err                                           *)
(*  filter.text  : arbitrary text                                           *)
(*      C09  outcome ok | err ;  C08 as above when it parsed; and when the  *)
(*           TLA+ parser accepts the text libhaystack must yield that tree  *)
(*  filter.eval  : f (parsed from its canonical print) evaluated on rec     *)
(*      C07  truth value = Eval(f, rec)  ("U" admits both)                  *)
(*  filter.grid  : rows filtered: filter_all = the rows where Eval holds,   *)
(*           in order; filter = the first of them                           *)
(*  filter.weq   : `*==` with a caller-supplied resolver over a database    *)
(*           with chains and cycles: terminates, = reachability             *)
(***************************************************************************)
EXTENDS Filter, TraceBase

VARIABLES l, nbad

Total(o) == o \in {"ok", "err"}

\* literals the printer may legitimately not round-trip exactly are none: printed text must denote the same tree
PrintChecks(e) ==
    IF e.outcome # "ok" THEN <<>>
    ELSE LET p == FParse(e.printed) IN
         \* a filter libhaystack accepted leniently with a reserved word as a name ("or", "true") has no sentence at all:
         \* only libhaystack's own print / re-parse identity is required of it
         Need(p.ok \/ ~FWellFormed(e.tree), "C08", <<"printed filter is not a sentence", StringOf(e.printed)>>)
         \o (IF p.ok THEN Need(FDenotes(p.v, e.tree), "C08", <<"printed filter denotes another tree", StringOf(e.printed)>>) ELSE <<>>)
         \o Need(e.reparse.outcome = "ok", "C08", <<"printed filter rejected by libhaystack", StringOf(e.printed), e.reparse.outcome>>)
         \o (IF e.reparse.outcome = "ok" THEN Need(FSame(e.reparse.tree, e.tree), "C08", <<"print then parse changes the filter", StringOf(e.printed)>>) ELSE <<>>)

CheckParse(e) ==
    LET r == FParse(e.text) IN
    IF ~(r.ok /\ FDenotes(r.v, e.f)) THEN <<<<"SPEC", <<"spec printer/parser disagree", StringOf(e.text)>>>>>>
    ELSE Need(Total(e.outcome), "C09", <<"parser", e.outcome, e.msg>>)
         \o Need(e.outcome = "ok", "C08", <<"well-formed filter rejected", StringOf(e.text), e.msg>>)
         \o (IF e.outcome = "ok" THEN Need(FSame(e.tree, e.f), "C08", <<"parsed tree differs from the grammar's", StringOf(e.text)>>) ELSE <<>>)
         \o PrintChecks(e)

\* only ASCII texts are given to the TLA+ parser (positions are code points there, bytes in the harness - irrelevant
\* here, but non-UTF-8 input has no code point form at all)
CheckText(e) ==
    Need(Total(e.outcome), "C09", <<"parser", e.outcome, e.msg>>)
    \o (IF e.utf8 /\ e.outcome = "ok" THEN PrintChecks(e) ELSE <<>>)
    \o (IF e.utf8 THEN
          LET r == FParse(e.text) IN
          IF r.ok /\ FDecidable(r.v) /\ ~DebatableEsc(e.text) THEN Need(e.outcome = "ok", "C08", <<"well-formed filter rejected", StringOf(e.text), e.msg>>)
                       \o (IF e.outcome = "ok" THEN Need(FDenotes(r.v, e.tree), "C08", <<"parsed tree differs from the grammar's", StringOf(e.text)>>) ELSE <<>>)
          ELSE <<>>
        ELSE <<>>)

TruthOk(got, want) == got \in {"T", "F"} /\ (want = "U" \/ got = want)

CheckEval(e) ==
    IF e.outcome # "ok" \/ ~FSame(e.tree, e.f) THEN <<<<"C08", <<"canonical print not parsed back to the filter", StringOf(e.text), e.outcome>>>>>>
    ELSE LET want == Eval(e.f, e.rec) IN
         Need(TruthOk(e.dict_filter, want), "C07", <<"Dict::filter", StringOf(e.text), "expected", want, "got", e.dict_filter>>)
         \o Need(TruthOk(e.eval_ctx, want), "C07", <<"Eval::eval with EvalContext", StringOf(e.text), "expected", want, "got", e.eval_ctx>>)

\* indices (1-based) of the rows on which the filter holds / may hold
CheckGrid(e) ==
    IF e.outcome # "ok" \/ ~FSame(e.tree, e.f) THEN <<<<"C08", <<"canonical print not parsed back to the filter", StringOf(e.text)>>>>>>
    ELSE LET truth == [i \in 1..Len(e.rows) |-> Eval(e.f, e.rows[i])]
             must == {i \in 1..Len(e.rows) : truth[i] = "T"}
             may == {i \in 1..Len(e.rows) : truth[i] \in {"T", "U"}}
             got == {e.all[i] : i \in 1..Len(e.all)}
         IN Need(e.monitor = "ok", "C07", <<"grid filtering", e.monitor>>)
            \o Need(must \subseteq got /\ got \subseteq may, "C07", <<"filter_all rows", StringOf(e.text), e.all>>)
            \o Need(\A i \in 1..(Len(e.all) - 1) : e.all[i] < e.all[i + 1], "C07", <<"filter_all order", e.all>>)
            \o Need(IF e.all = <<>> THEN e.first = 0 ELSE e.first = e.all[1], "C07", <<"filter is not the first match", e.first, e.all>>)

CheckWeq(e) ==
    Need(e.truth \in {"T", "F"}, "C09", <<"evaluation with a cyclic resolver", e.truth>>)
    \o (IF e.truth \in {"T", "F"} THEN Need(e.truth = B(WildcardEq(e.rec, e.path, e.target, e.db)), "C07", <<"*== over the ref chain", e.truth>>) ELSE <<>>)

\* a relationship term (`containedBy? @x`) evaluated with the Project Haystack defs over a caller-supplied resolver whose records
\* form chains, rings and tails into rings, with and without `id` tags: what it answers is not specified here, that it answers is
CheckRel(e) == Need(e.truth \in {"T", "F"}, "C09", <<"evaluation of a relationship term with a cyclic resolver", e.truth>>)

\* `a *== @target` / `containedBy? @target` from a record whose ref starts a chain n0 -> n1 -> ... -> n(N-1) of N records without a
\* cycle; the last one refers to @target iff e.hit. Evaluation must answer however long the chain is (a process that dies of
\* stack exhaustion gives no answer), and for `*==` the answer is whether the chain reaches the target.
CheckChain(e) ==
    Need(e.truth \in {"T", "F"}, "C09", <<"evaluation over a long chain of refs without a cycle", e.kind, e.n, e.truth>>)
    \o (IF e.kind = "weq" /\ e.truth \in {"T", "F"}
        THEN Need(e.truth = (IF e.hit THEN "T" ELSE "F"), "C07", <<"*== over a long ref chain", e.n, e.truth>>) ELSE <<>>)

Check(e) == CASE e.op = "filter.parse" -> CheckParse(e)
              [] e.op = "filter.chain" -> CheckChain(e)
              [] e.op = "filter.rel" -> CheckRel(e)
              [] e.op = "filter.text" -> CheckText(e)
              [] e.op = "filter.eval" -> CheckEval(e)
              [] e.op = "filter.grid" -> CheckGrid(e)
              [] e.op = "filter.weq" -> CheckWeq(e)
              [] OTHER -> <<<<"SPEC", <<"unknown op", e.op>>>>>>

Init == l = 1 /\ nbad = 0
Next == \/ /\ l <= Len(Rec)
           /\ LET r == Check(Rec[l]) IN Report(Rec[l].i, r, 1) /\ nbad' = nbad + Len(r)
           /\ l' = l + 1
        \/ /\ l = Len(Rec) + 1
           /\ PrintT("CONSUMED " \o ToString(Len(Rec)) \o " " \o ToString(nbad))
           /\ l' = l + 1 /\ nbad' = nbad
Spec == Init /\ [][Next]_<<l, nbad>>
=============================================================================

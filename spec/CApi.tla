-------------------------------- MODULE CApi --------------------------------
(***************************************************************************)
(* The C API (src/c_api, libhaystack.h) as operations on abstract values:   *)
(* a pool of value handles, a pool of filter handles, a last-error slot.    *)
(*   Apply(st, c) = [ok, ret, pool, filters, err]  for a call c             *)
(* Every success branch is the corresponding operation on the abstract      *)
(* value (sequence / map / table, the Zinc / Hayson / Filter modules);      *)
(* every failure branch returns the documented sentinel (NULL, ERR = -1,    *)
(* usize::MAX / u32::MAX, NaN, false), sets the error slot and leaves every *)
(* handle unchanged.  A call c carries fn and named arguments:              *)
(*   h, h2 : handle ids (0 = null pointer)    idx, n1..n4 : integers        *)
(*   s, s2 : [some|->TRUE, s|->text] | [some|->FALSE, why|->"null"|"badutf8"]*)
(*   f1, f2 : binary64 bits   b : boolean   fid : filter handle id          *)
(*   newh : the id the harness will give to a handle created by this call   *)
(* Leniency of the decoders on non-sentences is admitted: for from_zinc /   *)
(* from_json / filter_parse on a text the grammar rejects, either a failure *)
(* or a new handle is accepted.                                             *)
(***************************************************************************)
EXTENDS Hayson, Filter

Null_ == [r |-> "null"]
Void == [r |-> "void"]
HandleRet(h) == [r |-> "handle", h |-> h]
BoolRet(b) == [r |-> "bool", b |-> b]
IntRet(n) == [r |-> "int", n |-> n]
MaxRet == [r |-> "max"]
Res(v) == [r |-> "res", v |-> v]
StrRet(s) == [r |-> "str", s |-> s]
NanRet == [r |-> "f64nan"]
F64Ret(bits) == [r |-> "f64", bits |-> bits]

Live(st, h) == h # 0 /\ h \in DOMAIN st.pool
V(st, h) == st.pool[h]
K(st, h) == st.pool[h].k

Success(st, ret) == [kind |-> "ok", ret |-> ret, pool |-> st.pool, filters |-> st.filters, err |-> st.err]
SuccessPool(st, ret, pool) == [kind |-> "ok", ret |-> ret, pool |-> pool, filters |-> st.filters, err |-> st.err]
Failure(st, ret) == [kind |-> "fail", ret |-> ret, pool |-> st.pool, filters |-> st.filters, err |-> TRUE]
\* either a failure (sentinel) or a success creating handle newh with any value (decoder leniency)
Lenient(st, sentinel) == [kind |-> "lenient", ret |-> sentinel, pool |-> st.pool, filters |-> st.filters, err |-> st.err]
PoolPut(st, h, v) == [x \in DOMAIN st.pool \cup {h} |-> IF x = h THEN v ELSE st.pool[x]]
NewValue(st, c, v) == SuccessPool(st, HandleRet(c.newh), PoolPut(st, c.newh, v))

HasNul(s) == \E i \in 1..Len(s) : s[i] = 0
\* a text is handed out as a C string: impossible with an interior NUL (NULL + error)
GiveStr(st, s) == IF HasNul(s) THEN Failure(st, Null_) ELSE Success(st, StrRet(s))
\* UTF-8 byte length of a text
Utf8Len(s) == LET w(c) == IF c < 128 THEN 1 ELSE IF c < 2048 THEN 2 ELSE IF c < 65536 THEN 3 ELSE 4 IN
              IF s = <<>> THEN 0 ELSE LET RECURSIVE sum(_) sum(i) == IF i > Len(s) THEN 0 ELSE w(s[i]) + sum(i + 1) IN sum(1)

IsFns == [haystack_value_is_null |-> "null", haystack_value_is_marker |-> "marker", haystack_value_is_na |-> "na",
          haystack_value_is_remove |-> "remove", haystack_value_is_bool |-> "bool", haystack_value_is_number |-> "num",
          haystack_value_is_coord |-> "coord", haystack_value_is_str |-> "str", haystack_value_is_ref |-> "ref",
          haystack_value_is_uri |-> "uri", haystack_value_is_symbol |-> "symbol", haystack_value_is_xstr |-> "xstr",
          haystack_value_is_time |-> "time", haystack_value_is_date |-> "date", haystack_value_is_datetime |-> "dt",
          haystack_value_is_list |-> "list", haystack_value_is_dict |-> "dict", haystack_value_is_grid |-> "grid"]
MakeFns == [haystack_value_init |-> Null, haystack_value_make_marker |-> Marker, haystack_value_make_na |-> NA,
            haystack_value_make_remove |-> Remove, haystack_value_make_list |-> List(<<>>), haystack_value_make_dict |-> Dict(<<>>),
            haystack_value_make_grid |-> Grid(<<51, 46, 48>>, <<>>, <<Col(CodePoints("empty"), <<>>)>>, <<>>)]
\* text getters: fn |-> <<kind, field>>
StrFns == [haystack_value_get_str_value |-> <<"str", "s">>, haystack_value_get_ref_value |-> <<"ref", "id">>,
           haystack_value_get_symbol_value |-> <<"symbol", "s">>, haystack_value_get_uri_value |-> <<"uri", "s">>,
           haystack_value_get_xstr_type |-> <<"xstr", "t">>, haystack_value_get_xstr_value |-> <<"xstr", "s">>,
           haystack_value_get_datetime_timezone |-> <<"dt", "tz">>]
LenFns == [haystack_value_get_str_len |-> <<"str", "s">>, haystack_value_get_ref_value_len |-> <<"ref", "id">>,
           haystack_value_get_symbol_value_len |-> <<"symbol", "s">>, haystack_value_get_uri_value_len |-> <<"uri", "s">>]
\* u32 getters: fn |-> <<kind, field>>
IntFns == [haystack_value_get_date_year |-> <<"date", "y">>, haystack_value_get_date_month |-> <<"date", "m">>,
           haystack_value_get_date_day |-> <<"date", "d">>, haystack_value_get_time_hour |-> <<"time", "h">>,
           haystack_value_get_time_minutes |-> <<"time", "mi">>, haystack_value_get_time_seconds |-> <<"time", "s">>]
TextMakers == [haystack_value_make_str |-> "str", haystack_value_make_ref |-> "ref", haystack_value_make_uri |-> "uri",
               haystack_value_make_symbol |-> "symbol"]

SeqRemove(s, i) == SubSeq(s, 1, i - 1) \o SubSeq(s, i + 1, Len(s))
LocalCivil(v) == LET l == v.sod + v.off
                     dshift == IF l < 0 THEN -1 ELSE IF l >= 86400 THEN 1 ELSE 0
                 IN [date |-> CivilFromDays(v.day + dshift), sod |-> l - dshift * 86400]

Apply(st, c) ==
    LET fn == c.fn IN
    CASE fn \in DOMAIN MakeFns -> NewValue(st, c, MakeFns[fn])
      [] fn = "haystack_value_make_bool" -> NewValue(st, c, Bool(c.b))
      [] fn = "haystack_value_make_number" -> NewValue(st, c, [k |-> "num", bits |-> c.f1, unit |-> <<>>])
      [] fn = "haystack_value_make_coord" -> NewValue(st, c, Coord(c.f1, c.f2))
      [] fn = "haystack_value_make_number_with_unit" ->
           IF ~c.s.some THEN Failure(st, Null_)
           ELSE IF c.unitKnown THEN NewValue(st, c, [k |-> "num", bits |-> c.f1, unit |-> <<c.unitSymbol>>])
           ELSE Failure(st, Null_)
      [] fn \in DOMAIN TextMakers ->
           IF ~c.s.some THEN Failure(st, Null_)
           ELSE LET kd == TextMakers[fn] IN
                NewValue(st, c, IF kd = "ref" THEN Ref(c.s.s, <<>>) ELSE [k |-> kd, s |-> c.s.s])
      [] fn = "haystack_value_make_ref_with_dis" ->
           IF ~c.s.some \/ ~c.s2.some THEN Failure(st, Null_) ELSE NewValue(st, c, Ref(c.s.s, <<c.s2.s>>))
      [] fn = "haystack_value_make_xstr" ->
           IF ~c.s.some \/ ~c.s2.some THEN Failure(st, Null_) ELSE NewValue(st, c, XStr(c.s.s, c.s2.s))
      [] fn = "haystack_value_make_time" ->
           IF ValidTime(c.n1, c.n2, c.n3, 0) THEN NewValue(st, c, Time(c.n1, c.n2, c.n3, 0)) ELSE Failure(st, Null_)
      [] fn = "haystack_value_make_time_millis" ->
           IF ValidTime(c.n1, c.n2, c.n3, 0) /\ c.n4 >= 0 /\ c.n4 <= 999
           THEN NewValue(st, c, Time(c.n1, c.n2, c.n3, c.n4 * 1000000))
           ELSE IF ValidTime(c.n1, c.n2, c.n3, 0) /\ c.n3 = 59 /\ c.n4 >= 1000 /\ c.n4 <= 1999
           THEN Lenient(st, Null_)             \* second 59 with 1000..1999 ms is chrono's leap second: admitted either way
           ELSE Failure(st, Null_)
      [] fn = "haystack_value_make_date" ->
           IF c.n1 >= 0 /\ c.n1 <= 9999 /\ ValidDate(c.n1, c.n2, c.n3) THEN NewValue(st, c, Date(c.n1, c.n2, c.n3))
           ELSE IF c.n1 >= 0 /\ c.n1 <= 9999 THEN Failure(st, Null_) ELSE Lenient(st, Null_)   \* years outside 0..9999: chrono's range, unspecified here
      [] fn = "haystack_value_make_utc_datetime" ->
           IF Live(st, c.h) /\ Live(st, c.h2) /\ K(st, c.h) = "date" /\ K(st, c.h2) = "time"
           THEN LET d == V(st, c.h)  t == V(st, c.h2) IN
                NewValue(st, c, DateTime(DaysFromCivil(d.y, d.m, d.d), t.h * 3600 + t.mi * 60 + t.s, t.ns, 0, UTCText))
           ELSE Failure(st, Null_)
      [] fn = "haystack_value_make_tz_datetime" ->
           IF Live(st, c.h) /\ Live(st, c.h2) /\ K(st, c.h) = "date" /\ K(st, c.h2) = "time" /\ c.s.some /\ c.zoneKnown
           THEN LET d == V(st, c.h)  t == V(st, c.h2) IN
                \* the date and time are the UTC instant, shown in the zone (offset is the tz database's, logged as oracle)
                NewValue(st, c, DateTime(DaysFromCivil(d.y, d.m, d.d), t.h * 3600 + t.mi * 60 + t.s, t.ns, c.zoneOff, c.s.s))
           ELSE Failure(st, Null_)
      [] fn \in DOMAIN IsFns -> IF Live(st, c.h) THEN Success(st, BoolRet(K(st, c.h) = IsFns[fn])) ELSE Failure(st, BoolRet(FALSE))
      [] fn = "haystack_value_get_number_value" ->
           IF Live(st, c.h) /\ K(st, c.h) = "num" THEN Success(st, F64Ret(V(st, c.h).bits)) ELSE Failure(st, NanRet)
      [] fn = "haystack_value_number_has_unit" ->
           IF Live(st, c.h) /\ K(st, c.h) = "num" THEN Success(st, Res(IF V(st, c.h).unit # <<>> THEN 1 ELSE 0)) ELSE Failure(st, Res(-1))
      [] fn = "haystack_value_get_number_unit" ->
           IF Live(st, c.h) /\ K(st, c.h) = "num"
           THEN (IF V(st, c.h).unit = <<>> THEN Success(st, Null_) ELSE GiveStr(st, V(st, c.h).unit[1]))    \* no unit: NULL without error
           ELSE Failure(st, Null_)
      [] fn = "haystack_value_get_coord_lat" -> IF Live(st, c.h) /\ K(st, c.h) = "coord" THEN Success(st, F64Ret(V(st, c.h).lat)) ELSE Failure(st, NanRet)
      [] fn = "haystack_value_get_coord_long" -> IF Live(st, c.h) /\ K(st, c.h) = "coord" THEN Success(st, F64Ret(V(st, c.h).lng)) ELSE Failure(st, NanRet)
      [] fn \in DOMAIN IntFns ->
           IF Live(st, c.h) /\ K(st, c.h) = IntFns[fn][1] THEN Success(st, IntRet(V(st, c.h)[IntFns[fn][2]])) ELSE Failure(st, MaxRet)
      [] fn = "haystack_value_get_time_millis" ->
           IF Live(st, c.h) /\ K(st, c.h) = "time" THEN Success(st, IntRet(V(st, c.h).ns \div 1000000)) ELSE Failure(st, MaxRet)
      [] fn \in DOMAIN StrFns ->
           IF Live(st, c.h) /\ K(st, c.h) = StrFns[fn][1] THEN GiveStr(st, V(st, c.h)[StrFns[fn][2]]) ELSE Failure(st, Null_)
      [] fn = "haystack_value_get_ref_dis" ->
           IF Live(st, c.h) /\ K(st, c.h) = "ref"
           THEN (IF V(st, c.h).dis = <<>> THEN Lenient(st, Null_) ELSE GiveStr(st, V(st, c.h).dis[1]))
           ELSE Failure(st, Null_)
      [] fn \in DOMAIN LenFns ->
           IF Live(st, c.h) /\ K(st, c.h) = LenFns[fn][1] THEN Success(st, IntRet(Utf8Len(V(st, c.h)[LenFns[fn][2]]))) ELSE Failure(st, MaxRet)
      [] fn \in {"haystack_value_get_datetime_date", "haystack_value_get_datetime_time"} ->
           IF Live(st, c.h) /\ Live(st, c.h2) /\ K(st, c.h) = "dt"
           THEN LET v == V(st, c.h)
                    loc == IF c.b THEN [date |-> CivilFromDays(v.day), sod |-> v.sod] ELSE LocalCivil(v)
                    out == IF fn = "haystack_value_get_datetime_date" THEN Date(loc.date.y, loc.date.m, loc.date.d)
                           ELSE Time(loc.sod \div 3600, (loc.sod \div 60) % 60, loc.sod % 60, v.ns)
                IN SuccessPool(st, Res(1), PoolPut(st, c.h2, out))
           ELSE Failure(st, Res(-1))
      \* ---- list: the sequence it wraps ----
      [] fn = "haystack_value_get_list_len" -> IF Live(st, c.h) /\ K(st, c.h) = "list" THEN Success(st, IntRet(Len(V(st, c.h).items))) ELSE Failure(st, MaxRet)
      [] fn = "haystack_value_push_list_entry" ->
           IF Live(st, c.h) /\ K(st, c.h) = "list" /\ Live(st, c.h2)
           THEN SuccessPool(st, Res(1), PoolPut(st, c.h, List(Append(V(st, c.h).items, V(st, c.h2)))))
           ELSE Failure(st, Res(-1))
      [] fn = "haystack_value_get_list_entry_at" ->
           IF Live(st, c.h) /\ K(st, c.h) = "list" /\ c.idx < Len(V(st, c.h).items) /\ c.slot
           THEN [Success(st, Res(1)) EXCEPT !.ret = [r |-> "res", v |-> 1, entry |-> V(st, c.h).items[c.idx + 1]]]
           ELSE Failure(st, Res(-1))
      [] fn = "haystack_value_set_list_entry_at" ->
           IF Live(st, c.h) /\ K(st, c.h) = "list" /\ c.idx < Len(V(st, c.h).items) /\ Live(st, c.h2)
           THEN SuccessPool(st, Res(1), PoolPut(st, c.h, List([V(st, c.h).items EXCEPT ![c.idx + 1] = V(st, c.h2)])))
           ELSE Failure(st, Res(-1))
      [] fn = "haystack_value_remove_list_entry_at" ->
           IF Live(st, c.h) /\ K(st, c.h) = "list" /\ c.idx < Len(V(st, c.h).items)
           THEN SuccessPool(st, Res(1), PoolPut(st, c.h, List(SeqRemove(V(st, c.h).items, c.idx + 1))))
           ELSE Failure(st, Res(-1))
      \* ---- dict: the map it wraps ----
      [] fn = "haystack_value_get_dict_len" -> IF Live(st, c.h) /\ K(st, c.h) = "dict" THEN Success(st, IntRet(Len(V(st, c.h).tags))) ELSE Failure(st, MaxRet)
      [] fn = "haystack_value_get_dict_keys" ->
           IF Live(st, c.h) /\ K(st, c.h) = "dict" /\ Live(st, c.h2)
           THEN SuccessPool(st, Res(1), PoolPut(st, c.h2, List([i \in 1..Len(V(st, c.h).tags) |-> Str(V(st, c.h).tags[i][1])])))
           ELSE Failure(st, Res(-1))
      [] fn = "haystack_value_insert_dict_entry" ->
           IF Live(st, c.h) /\ K(st, c.h) = "dict" /\ c.s.some /\ Live(st, c.h2)
           THEN SuccessPool(st, Res(1), PoolPut(st, c.h, Dict(TagsPut(V(st, c.h).tags, c.s.s, V(st, c.h2)))))
           ELSE Failure(st, Res(-1))
      [] fn = "haystack_value_get_dict_entry" ->
           IF Live(st, c.h) /\ K(st, c.h) = "dict" /\ c.s.some /\ c.slot
           THEN (IF TagsHas(V(st, c.h).tags, c.s.s)
                 THEN [Success(st, Res(1)) EXCEPT !.ret = [r |-> "res", v |-> 1, entry |-> TagsGet(V(st, c.h).tags, c.s.s)]]
                 ELSE Success(st, Res(0)))                      \* absent: FALSE, not an error
           ELSE Failure(st, Res(-1))
      [] fn = "haystack_value_remove_dict_entry" ->
           IF Live(st, c.h) /\ K(st, c.h) = "dict" /\ c.s.some
           THEN SuccessPool(st, Res(1), PoolPut(st, c.h, Dict(TagsRemove(V(st, c.h).tags, c.s.s))))
           ELSE Failure(st, Res(-1))
      \* ---- grid: the table it wraps ----
      [] fn = "haystack_value_get_grid_len" -> IF Live(st, c.h) /\ K(st, c.h) = "grid" THEN Success(st, IntRet(Len(V(st, c.h).rows))) ELSE Failure(st, MaxRet)
      [] fn \in {"haystack_value_make_grid_from_rows", "haystack_value_make_grid_from_rows_with_meta"} ->
           IF Live(st, c.h) /\ K(st, c.h) = "list"
           THEN LET dicts == SelectSeq(V(st, c.h).items, LAMBDA x : x.k = "dict")
                    rows == [i \in 1..Len(dicts) |-> dicts[i].tags]
                IN IF rows = <<>> THEN Failure(st, Null_)
                   ELSE IF fn = "haystack_value_make_grid_from_rows" THEN NewValue(st, c, GridFromDicts(rows, <<>>))
                   ELSE IF Live(st, c.h2) /\ K(st, c.h2) = "dict" THEN NewValue(st, c, GridFromDicts(rows, V(st, c.h2).tags))
                   ELSE Failure(st, Null_)
           ELSE Failure(st, Null_)
      [] fn = "haystack_value_get_grid_row_at" ->
           IF Live(st, c.h) /\ K(st, c.h) = "grid" /\ c.idx < Len(V(st, c.h).rows) /\ Live(st, c.h2)
           THEN SuccessPool(st, Res(1), PoolPut(st, c.h2, Dict(V(st, c.h).rows[c.idx + 1])))
           ELSE Failure(st, Res(-1))
      \* ---- codecs: what the Rust codecs return ----
      [] fn = "haystack_value_to_zinc_string" -> IF Live(st, c.h) THEN [Success(st, Void) EXCEPT !.kind = "zinctext"] ELSE Failure(st, Null_)
      [] fn = "haystack_value_to_json_string" -> IF Live(st, c.h) THEN [Success(st, Void) EXCEPT !.kind = "jsontext"] ELSE Failure(st, Null_)
      [] fn = "haystack_value_from_zinc_string" ->
           IF ~c.s.some THEN Failure(st, Null_) ELSE [Lenient(st, Null_) EXCEPT !.kind = "fromzinc"]
      [] fn = "haystack_value_from_json_string" ->
           IF ~c.s.some THEN Failure(st, Null_) ELSE [Lenient(st, Null_) EXCEPT !.kind = "fromjson"]
      \* ---- filters ----
      [] fn = "haystack_filter_parse" ->
           IF ~c.s.some THEN Failure(st, Null_) ELSE [Lenient(st, Null_) EXCEPT !.kind = "filterparse"]
      [] fn = "haystack_filter_match_dict" ->
           IF c.fid \in DOMAIN st.filters /\ Live(st, c.h) /\ K(st, c.h) = "dict"
           THEN [Success(st, Void) EXCEPT !.kind = "truth", !.ret = Eval(st.filters[c.fid], V(st, c.h).tags)]
           ELSE Failure(st, Res(-1))
      [] fn \in {"haystack_filter_first_match_in_grid", "haystack_filter_match_all_grid"} ->
           IF c.fid \in DOMAIN st.filters /\ Live(st, c.h) /\ K(st, c.h) = "grid" /\ Live(st, c.h2)
           THEN [Success(st, Void) EXCEPT !.kind = IF fn = "haystack_filter_first_match_in_grid" THEN "firstmatch" ELSE "allmatch"]
           ELSE Failure(st, Res(-1))
      \* ---- error slot, destruction ----
      [] fn = "last_error_message" ->
           [kind |-> "ok", ret |-> IF st.err THEN [r |-> "anystr"] ELSE Null_, pool |-> st.pool, filters |-> st.filters, err |-> FALSE]
      [] fn = "haystack_value_destroy" ->
           IF Live(st, c.h) THEN SuccessPool(st, Void, [x \in DOMAIN st.pool \ {c.h} |-> st.pool[x]]) ELSE [Success(st, Void) EXCEPT !.kind = "protocol"]
      [] fn = "haystack_string_destroy" -> Success(st, Void)
      [] OTHER -> [kind |-> "unmodelled", ret |-> Void, pool |-> st.pool, filters |-> st.filters, err |-> st.err]

ModelledFns == DOMAIN MakeFns \cup DOMAIN IsFns \cup DOMAIN StrFns \cup DOMAIN LenFns \cup DOMAIN IntFns \cup DOMAIN TextMakers \cup
    {"haystack_value_make_bool", "haystack_value_make_number", "haystack_value_make_coord", "haystack_value_make_number_with_unit",
     "haystack_value_make_ref_with_dis", "haystack_value_make_xstr", "haystack_value_make_time", "haystack_value_make_time_millis",
     "haystack_value_make_date", "haystack_value_make_utc_datetime", "haystack_value_make_tz_datetime",
     "haystack_value_get_number_value", "haystack_value_number_has_unit", "haystack_value_get_number_unit",
     "haystack_value_get_coord_lat", "haystack_value_get_coord_long", "haystack_value_get_time_millis", "haystack_value_get_ref_dis",
     "haystack_value_get_datetime_date", "haystack_value_get_datetime_time",
     "haystack_value_get_list_len", "haystack_value_push_list_entry", "haystack_value_get_list_entry_at",
     "haystack_value_set_list_entry_at", "haystack_value_remove_list_entry_at",
     "haystack_value_get_dict_len", "haystack_value_get_dict_keys", "haystack_value_insert_dict_entry",
     "haystack_value_get_dict_entry", "haystack_value_remove_dict_entry",
     "haystack_value_get_grid_len", "haystack_value_make_grid_from_rows", "haystack_value_make_grid_from_rows_with_meta",
     "haystack_value_get_grid_row_at", "haystack_value_to_zinc_string", "haystack_value_from_zinc_string",
     "haystack_value_to_json_string", "haystack_value_from_json_string",
     "haystack_filter_parse", "haystack_filter_match_dict", "haystack_filter_first_match_in_grid", "haystack_filter_match_all_grid",
     "last_error_message", "haystack_value_destroy", "haystack_string_destroy"}
=============================================================================

--------------------------- MODULE Trace_NsCache ---------------------------
(***************************************************************************)
(* Validates executions of the def namespace recorded through the verif     *)
(* hook (every cache touch and guard drop of every thread, globally         *)
(* sequenced under the log lock) - property C14.  The protocol-level        *)
(* invariants of NsCache.tla are re-checked on what the real code did:      *)
(*   NoReentry      no cache operation (get / contains / insert) on a map   *)
(*                  by a thread that holds a guard of that map - checked    *)
(*                  per thread in program order, so a run that got lucky    *)
(*                  with the schedule is rejected all the same              *)
(*   CacheCoherent  every value inserted into or served from a cache is the *)
(*                  pure value of Defs.tla for that key (never partial)     *)
(*   GuardsReleased no guard survives its query                             *)
(*   AnswerCorrect  every query result = the pure graph answer = the answer *)
(*                  of the same query alone on a cold namespace             *)
(*   no panic, no round that fails to finish (deadlock watchdog)            *)
(* Nothing is asserted about cross-thread timing.                           *)
(***************************************************************************)
EXTENDS Defs, TraceBase

VARIABLES l, nbad, db, held, kinds
MaxThreads == 32

SetOf(seq) == {seq[i] : i \in 1..Len(seq)}
Holds(h, t, m) == \E i \in 1..Len(h[t]) : h[t][i] = m
RemoveOne(s, m) == LET i == CHOOSE j \in 1..Len(s) : s[j] = m IN SubSeq(s, 1, i - 1) \o SubSeq(s, i + 1, Len(s))

\* value served / inserted for key on map m agrees with the pure value of the map's kind
ValueOk(m, key, val) ==
    LET isSup == val = Sup(db, key)  isInh == val = Inh(db, key) IN
    IF <<m, "SUP">> \in kinds THEN isSup ELSE IF <<m, "INH">> \in kinds THEN isInh ELSE isSup \/ isInh
KindsAfter(m, key, val) ==
    LET isSup == val = Sup(db, key)  isInh == val = Inh(db, key) IN
    IF \E k \in {"SUP", "INH"} : <<m, k>> \in kinds THEN kinds
    ELSE IF isSup /\ ~isInh THEN kinds \cup {<<m, "SUP">>}
    ELSE IF isInh /\ ~isSup THEN kinds \cup {<<m, "INH">>}
    ELSE kinds

True == <<116, 114, 117, 101>>
PureAnswer(q) ==
    CASE q.q = "sup" -> Sup(db, q.k)
      [] q.q = "allsup" -> AllSup(db, q.k)
      [] q.q = "inh" -> Inh(db, q.k)
      [] q.q = "fits" -> IF Fits(db, q.k, q.b) THEN {True} ELSE {}
      [] q.q = "reflect" -> Reflect(db, q.rec)
      [] OTHER -> {}

Check(e) ==
    CASE e.op = "defs.load" -> <<>>
      [] e.op = "ns.qbegin" -> Need(held[e.t] = <<>>, "C14", <<"guard held at query start", e.t>>)
      [] e.op = "ns.get" ->
            Need(~Holds(held, e.t, e.map), "C14", <<"re-entrant get on a map while holding its guard", e.t, StringOf(e.key)>>)
            \o (IF e.flag THEN Need(ValueOk(e.map, e.key, SetOf(e.value)), "C14", <<"cache served a value that is not the graph's", StringOf(e.key)>>) ELSE <<>>)
      [] e.op = "ns.contains" -> Need(~Holds(held, e.t, e.map), "C14", <<"contains_key on a map while holding its guard", e.t>>)
      [] e.op = "ns.insert-begin" ->
            Need(~Holds(held, e.t, e.map), "C14", <<"insert into a map while holding its guard (self-deadlock)", e.t, StringOf(e.key)>>)
            \o Need(ValueOk(e.map, e.key, SetOf(e.value)), "C14", <<"partial / wrong value inserted", StringOf(e.key), e.value>>)
      [] e.op = "ns.insert" -> <<>>
      [] e.op = "ns.drop" -> Need(Holds(held, e.t, e.map), "C14", <<"guard dropped that was not held", e.t>>)
      [] e.op = "ns.qend" ->
            Need(held[e.t] = <<>>, "C14", <<"guard outlives its query", e.t, e.query.q>>)
            \o Need(e.flag, "C14", <<"answer differs from the same query alone on a cold namespace", e.query.q>>)
            \o (IF e.query.q \in {"sup", "allsup", "inh", "fits", "reflect"}
                THEN Need(SetOf(e.value) = PureAnswer(e.query), "C14", <<"answer differs from the graph's", e.query.q>>) ELSE <<>>)
      [] e.op = "ns.qpanic" -> <<<<"C14", <<"query panicked", e.value>>>>>>
      [] e.op = "ns.round" -> Need(e.outcome = "ok", "C14", <<"round did not finish within 20 s (deadlock)", e.threads, e.finished>>)
      \* a model-checked interleaving (MC_NsReplay) stepped through the real namespace, one cache touch at a time
      [] e.op = "ns.replay" -> Need(e.outcome = "ok", "C14", <<"replay of a model-checked interleaving", e.outcome, e.done, e.steps, e.detail>>)
      [] OTHER -> <<<<"SPEC", <<"unknown op", e.op>>>>>>

HeldAfter(e) ==
    CASE e.op = "defs.load" -> [t \in 0..MaxThreads |-> <<>>]
      [] e.op = "ns.get" /\ e.flag -> [held EXCEPT ![e.t] = Append(@, e.map)]
      [] e.op = "ns.drop" /\ Holds(held, e.t, e.map) -> [held EXCEPT ![e.t] = RemoveOne(@, e.map)]
      [] OTHER -> held
KindsNext(e) ==
    CASE e.op = "defs.load" -> {}
      [] e.op = "ns.insert-begin" -> KindsAfter(e.map, e.key, SetOf(e.value))
      [] OTHER -> kinds

Init == l = 1 /\ nbad = 0 /\ db = <<>> /\ held = [t \in 0..MaxThreads |-> <<>>] /\ kinds = {}
Next == \/ /\ l <= Len(Rec)
           /\ LET e == Rec[l]
                  r == Check(e)
              IN /\ Report(e.i, r, 1) /\ nbad' = nbad + Len(r)
                 /\ db' = IF e.op = "defs.load" THEN DbOf(e.rows) ELSE db
                 /\ held' = HeldAfter(e)
                 /\ kinds' = KindsNext(e)
           /\ l' = l + 1
        \/ /\ l = Len(Rec) + 1
           /\ PrintT("CONSUMED " \o ToString(Len(Rec)) \o " " \o ToString(nbad))
           /\ l' = l + 1 /\ UNCHANGED <<nbad, db, held, kinds>>
Spec == Init /\ [][Next]_<<l, nbad, db, held, kinds>>
=============================================================================

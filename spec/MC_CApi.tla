------------------------------ MODULE MC_CApi ------------------------------
(***************************************************************************)
(* The C API specification as a state machine: histories of calls from a    *)
(* small menu over handle ids 1..3 (ids are given out in order, so the same *)
(* menu call meets right-kind, wrong-kind, freed and null handles).         *)
(* TLC checks the protocol-level statements of C17 / C18 on every history:  *)
(*   a failure leaves every handle unchanged and sets the error slot;       *)
(*   a success never touches the error slot (only last_error_message        *)
(*   clears it); every value in the pool is a value.                        *)
(* Every history of length Depth is emitted for replay against the real     *)
(* extern "C" functions.                                                    *)
(***************************************************************************)
EXTENDS CApi, TLC, Json

CONSTANTS Depth
VARIABLES st, hist, nexth, lastKind, prevPool, prevErr
vars == <<st, hist, nexth, lastKind, prevPool, prevErr>>

S(x) == [some |-> TRUE, s |-> CodePoints(x), why |-> "none"]
NoS == [some |-> FALSE, s |-> <<>>, why |-> "null"]
Base == [fn |-> "", h |-> 0, h2 |-> 0, idx |-> 0, s |-> NoS, s2 |-> NoS, f1 |-> "0x3ff0000000000000", f2 |-> "0x0000000000000000",
         b |-> FALSE, n1 |-> 0, n2 |-> 0, n3 |-> 0, n4 |-> 0, fid |-> 0, newh |-> 0, newf |-> 0, slot |-> TRUE,
         tree |-> [j |-> "none"], unitKnown |-> FALSE, unitSymbol |-> <<>>, zoneKnown |-> FALSE, zoneOff |-> 0]
C(fn) == [Base EXCEPT !.fn = fn]
Menu ==
    { C("haystack_value_make_list"), C("haystack_value_make_dict"), C("haystack_value_make_number"),
      [C("haystack_value_make_str") EXCEPT !.s = S("x")], [C("haystack_value_make_str") EXCEPT !.s = NoS],
      [C("haystack_value_push_list_entry") EXCEPT !.h = 1, !.h2 = 2], [C("haystack_value_push_list_entry") EXCEPT !.h = 1, !.h2 = 3],
      [C("haystack_value_set_list_entry_at") EXCEPT !.h = 1, !.idx = 0, !.h2 = 3], [C("haystack_value_set_list_entry_at") EXCEPT !.h = 1, !.idx = 1, !.h2 = 2],
      [C("haystack_value_remove_list_entry_at") EXCEPT !.h = 1, !.idx = 0], [C("haystack_value_get_list_entry_at") EXCEPT !.h = 1, !.idx = 0],
      [C("haystack_value_get_list_len") EXCEPT !.h = 1], [C("haystack_value_get_list_len") EXCEPT !.h = 2],
      [C("haystack_value_insert_dict_entry") EXCEPT !.h = 2, !.s = S("a"), !.h2 = 3], [C("haystack_value_insert_dict_entry") EXCEPT !.h = 1, !.s = S("a"), !.h2 = 2],
      [C("haystack_value_get_dict_entry") EXCEPT !.h = 2, !.s = S("a")], [C("haystack_value_remove_dict_entry") EXCEPT !.h = 2, !.s = S("a")],
      [C("haystack_value_get_dict_keys") EXCEPT !.h = 2, !.h2 = 3], [C("haystack_value_get_dict_len") EXCEPT !.h = 2],
      [C("haystack_value_make_grid_from_rows") EXCEPT !.h = 1], [C("haystack_value_get_grid_row_at") EXCEPT !.h = 3, !.idx = 0, !.h2 = 2],
      [C("haystack_value_is_list") EXCEPT !.h = 1], [C("haystack_value_is_list") EXCEPT !.h = 0],
      [C("haystack_value_get_number_value") EXCEPT !.h = 3], [C("haystack_value_to_zinc_string") EXCEPT !.h = 1],
      C("last_error_message"), [C("haystack_value_destroy") EXCEPT !.h = 1], [C("haystack_value_destroy") EXCEPT !.h = 2] }

Creates(c) == c.fn \in DOMAIN MakeFns \cup {"haystack_value_make_number", "haystack_value_make_str", "haystack_value_make_grid_from_rows"}

Init == /\ st = [pool |-> <<>>, filters |-> <<>>, err |-> FALSE] /\ hist = <<>> /\ nexth = 1
        /\ lastKind = "none" /\ prevPool = <<>> /\ prevErr = FALSE
Do(c0) ==
    LET c == [c0 EXCEPT !.newh = nexth]
        x == Apply(st, c)
    IN /\ ~(c.fn = "haystack_value_destroy" /\ ~Live(st, c.h))        \* the ownership protocol: destroy live handles only
       /\ prevPool' = st.pool /\ prevErr' = st.err
       /\ st' = [pool |-> x.pool, filters |-> x.filters, err |-> x.err]
       /\ lastKind' = x.kind
       /\ nexth' = IF x.kind = "ok" /\ Creates(c) THEN nexth + 1 ELSE nexth
       /\ hist' = Append(hist, c)
Next == Len(hist) < Depth /\ nexth <= 3 /\ \E c \in Menu : Do(c)
Spec == Init /\ [][Next]_vars

FailureIsClean == lastKind = "fail" => st.pool = prevPool /\ st.err
SuccessKeepsError == (lastKind = "ok" /\ hist # <<>> /\ hist[Len(hist)].fn # "last_error_message") => st.err = prevErr
PoolIsValues == \A h \in DOMAIN st.pool : st.pool[h].k \in {Kinds[i] : i \in 1..Len(Kinds)}
AllModelled == lastKind # "unmodelled"
Emit == Len(hist) = Depth => PrintT("VEC " \o ToJson([op |-> "capi.history", calls |-> hist]))
=============================================================================

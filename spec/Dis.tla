--------------------------------- MODULE Dis ---------------------------------
(***************************************************************************)
(* Display names (property C20).                                            *)
(*   DisOf: the display string of a record is taken from the first of       *)
(*     dis, disMacro, disKey, name, def, tag, navName, id that it has, else *)
(*     the default; a Str shows its contents, a Ref under `id` its display  *)
(*     name or id, any other value its display text; a Str disMacro is a    *)
(*     pattern; a Str disKey goes through the localiser when it answers.    *)
(*   Macro: left-to-right scan of a pattern for  $tag  ${tag}  $<key> ;     *)
(*     a form that resolves is replaced by the tag's display text / the     *)
(*     localisation, anything else is copied verbatim; substituted text is  *)
(*     not rescanned.  tag = lower (alnum | _)* with maximal munch.         *)
(*   Deliberately open: whether a ONE-character name is a macro (the        *)
(*     documented grammar and the implementations differ) - Macro yields    *)
(*     the set of admissible outputs.                                       *)
(* Display texts of non-Str values are supplied with the scope (they are    *)
(* checked separately against the value: DisTextOk).                        *)
(***************************************************************************)
EXTENDS Zinc

W_(s) == CodePoints(s)
\* association lists <<key, text>>
Has(al, k) == \E i \in 1..Len(al) : al[i][1] = k
Get(al, k) == al[CHOOSE i \in 1..Len(al) : al[i][1] = k][2]

\* display text of a value as the implementation may spell it
DisTextOk(text, v) ==
    CASE v.k = "bool" -> text = (IF v.b THEN W_("true") ELSE W_("false"))
      [] v.k = "marker" -> text = W_("Marker")
      [] v.k = "null" -> text = W_("Null")
      [] v.k = "na" -> text = W_("Na")
      [] v.k = "remove" -> text = W_("Remove")
      [] OTHER -> ZincDenotes(text, v)

\* name at p: maximal run lower (alnum|_)* ; end position (exclusive) or 0
NameEnd(t, p) == IF IsLower(At(t, p)) THEN IdEnd(t, p + 1) ELSE 0
RECURSIVE FindGt(_, _)
FindGt(t, p) == IF p > Len(t) THEN 0 ELSE IF t[p] = 62 THEN p ELSE FindGt(t, p + 1)

\* the scan; oneChar = whether one-character names are macros
RECURSIVE Scan(_, _, _, _, _)
Scan(t, p, tags, loc, oneChar) ==
    IF p > Len(t) THEN <<>>
    ELSE IF t[p] # 36 THEN <<t[p]>> \o Scan(t, p + 1, tags, loc, oneChar)
    ELSE LET e == NameEnd(t, p + 1) IN
         IF e # 0 THEN
            \* $name
            LET name == SubSeq(t, p + 1, e - 1)
                isMacro == Len(name) >= 2 \/ oneChar
            IN IF isMacro /\ Has(tags, name) THEN Get(tags, name) \o Scan(t, e, tags, loc, oneChar)
               ELSE SubSeq(t, p, e - 1) \o Scan(t, e, tags, loc, oneChar)
         ELSE IF At(t, p + 1) = 123 THEN
            \* ${name}
            LET e2 == NameEnd(t, p + 2) IN
            IF e2 # 0 /\ At(t, e2) = 125 THEN
               LET name == SubSeq(t, p + 2, e2 - 1)
                   isMacro == Len(name) >= 2 \/ oneChar
               IN IF isMacro /\ Has(tags, name) THEN Get(tags, name) \o Scan(t, e2 + 1, tags, loc, oneChar)
                  ELSE SubSeq(t, p, e2) \o Scan(t, e2 + 1, tags, loc, oneChar)
            ELSE <<36>> \o Scan(t, p + 1, tags, loc, oneChar)
         ELSE IF At(t, p + 1) = 60 THEN
            \* $<key>
            LET g == FindGt(t, p + 2) IN
            IF g > p + 2 THEN
               LET key == SubSeq(t, p + 2, g - 1) IN
               IF Has(loc, key) THEN Get(loc, key) \o Scan(t, g + 1, tags, loc, oneChar)
               ELSE SubSeq(t, p, g) \o Scan(t, g + 1, tags, loc, oneChar)
            ELSE <<36>> \o Scan(t, p + 1, tags, loc, oneChar)
         ELSE <<36>> \o Scan(t, p + 1, tags, loc, oneChar)

Macro(t, tags, loc) == {Scan(t, 1, tags, loc, FALSE), Scan(t, 1, tags, loc, TRUE)}
NoDollar(t) == \A i \in 1..Len(t) : t[i] # 36

\* display string of a record. rec: abstract tags; disp: <<name, display text>> for every tag of rec;
\* loc: localiser; def: default text
DisPrecedence == <<W_("dis"), W_("disMacro"), W_("disKey"), W_("name"), W_("def"), W_("tag"), W_("navName"), W_("id")>>
RefDis(v) == IF v.dis = <<>> THEN v.id ELSE v.dis[1]
\* the tag texts a macro sees: Str contents, Ref dis-or-id, display text otherwise
\* what is shown for a tag value: a Str shows its contents, any other value its display text
Shown(v, disp, name) == IF v.k = "str" THEN v.s ELSE Get(disp, name)
MacroScope(rec, disp) == [i \in 1..Len(rec) |-> <<rec[i][1], IF rec[i][2].k = "ref" THEN RefDis(rec[i][2]) ELSE Shown(rec[i][2], disp, rec[i][1])>>]
DisOf(rec, disp, loc, def) ==
    LET present == {i \in 1..Len(DisPrecedence) : TagsHas(rec, DisPrecedence[i])} IN
    IF present = {} THEN {def}
    ELSE LET i == CHOOSE j \in present : \A k \in present : j <= k
             n == DisPrecedence[i]
             v == TagsGet(rec, n)
         IN IF n = W_("disMacro") /\ v.k = "str" THEN Macro(v.s, MacroScope(rec, disp), loc)
            ELSE IF n = W_("disKey") /\ v.k = "str" /\ Has(loc, v.s) THEN {Get(loc, v.s)}
            ELSE IF n = W_("id") /\ v.k = "ref" THEN {RefDis(v)}
            ELSE {Shown(v, disp, n)}
=============================================================================

------------------------------ MODULE MC_Zinc ------------------------------
(***************************************************************************)
(* Small-scope universe of well-formed values, built by constructor         *)
(* actions (state = the value under construction), on which TLC checks      *)
(*   RoundTrip : every spelling the writer can produce is read back as the  *)
(*               value  (the specified format is self-inverse, C01 /\ C04   *)
(*               are satisfiable together), and                             *)
(*   emits one vector per state for replay against libhaystack.             *)
(***************************************************************************)
EXTENDS HsUniverse, TLC, Json

CONSTANTS MaxDepth, EmitVectors

VARIABLES v, d
vars == <<v, d>>

Init == (v \in Scalars /\ d = 0) \/ (v \in NameFamily /\ d = MaxDepth)
Next == d < MaxDepth /\ v' \in Wraps(v) /\ d' = d + 1
Spec == Init /\ [][Next]_vars

StyleSeq ==
    << PlainStyle,
       [PlainStyle EXCEPT !.sp = <<32>>, !.dsep = <<44>>],
       [PlainStyle EXCEPT !.sp = <<9, 32>>, !.dsep = <<44, 32>>, !.trail = TRUE],
       [PlainStyle EXCEPT !.nl = <<13, 10>>, !.endnl = TRUE],
       [PlainStyle EXCEPT !.esc = "uni", !.num = "dot0"],
       [PlainStyle EXCEPT !.esc = "UNI", !.num = "e0"],
       [PlainStyle EXCEPT !.esc = "raw", !.num = "E+0", !.gnl = FALSE],
       [PlainStyle EXCEPT !.num = "shift", !.endnl = TRUE],
       [PlainStyle EXCEPT !.num = "us"],
       [PlainStyle EXCEPT !.esc = "alt", !.num = "alt", !.sp = <<32>>, !.trail = TRUE] >>
Styles == {StyleSeq[i] : i \in 1..Len(StyleSeq)}

WellFormed == WFv(v, AllUnits)
RoundTrip == \A st \in Styles : ZincDenotes(ZincWrite(v, st), v)
CanonIsPlain == ZincCanon(v) = ZincWrite(v, PlainStyle)

\* one vector per state: the value and the spec's spellings of it
Emit == EmitVectors =>
          PrintT("VEC " \o ToJson([op |-> "zinc.gen", v |-> [x \in DOMAIN v \ {"numeral"} |-> v[x]],
                                   texts |-> [i \in 1..Len(StyleSeq) |-> ZincWrite(v, StyleSeq[i])]]))
=============================================================================

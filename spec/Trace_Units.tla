----------------------------- MODULE Trace_Units -----------------------------
(***************************************************************************)
(* Validates unit lookups, codec round trips (C15), conversions, unit       *)
(* products / quotients and Number arithmetic (C16) against Units.tla and   *)
(* the generated UnitsDb.                                                   *)
(***************************************************************************)
EXTENDS Units, TraceBase

VARIABLES l, nbad, idx, U
\* idx / U hold IdxOf / Units as state values: TLC re-evaluates definitions of extended modules on every reference
UI(id) == IF id \in DOMAIN idx THEN idx[id] ELSE 0

\* the looked-up unit is the database row: identifiers, dimension vector, scale and offset numerals
UnitIs(u, row) ==
    /\ u.ids = row.ids /\ u.dim = row.dim
    /\ RoundsToF64(row.scale, u.scale) /\ RoundsToF64(row.offset, u.offset)

CheckLookup(e) ==
    LET i == UI(e.id) IN
    Need(e.outcome # "panic", "C15", <<"lookup panicked", StringOf(e.id)>>)
    \o (IF i = 0 THEN Need(e.outcome = "none", "C15", <<"a string that is no identifier was found", StringOf(e.id)>>)
        ELSE Need(e.outcome = "found" /\ UnitIs(e.unit, U[i]), "C15", <<"identifier does not return its unit", StringOf(e.id), e.outcome>>))

CheckCodec(e) ==
    Need(e.zinc.outcome = "ok" /\ Same(e.zinc.back, e.v), "C15", <<"unit lost through Zinc", StringOf(e.v.unit[1]), e.zinc.outcome, e.zinc.msg>>)
    \o Need(e.json.outcome = "ok" /\ Same(e.json.back, e.v), "C15", <<"unit lost through Hayson", StringOf(e.v.unit[1]), e.json.outcome, e.json.msg>>)

RECURSIVE ConvBad(_, _, _, _)
\* results: <<symbol of b, outcome, bits, <<back outcome, back bits>>>>
ConvBad(a, x, rs, i) ==
    IF i > Len(rs) THEN <<>>
    ELSE LET r == rs[i]
             b == U[UI(r[1])]
             conv == Convertible(a, b)
         IN (IF r[2] = "panic" THEN <<<<"C16", <<"convert panicked", StringOf(SymbolOf(a)), StringOf(r[1])>>>>>>
             ELSE IF (r[2] = "ok") # conv THEN <<<<"C16", <<"conversion succeeds iff same dimension", StringOf(SymbolOf(a)), StringOf(r[1]), r[2]>>>>>>
             ELSE IF r[2] # "ok" THEN <<>>
             ELSE IF F64Class(r[3]) # "fin" THEN <<<<"C16", <<"non-finite conversion result", StringOf(SymbolOf(a)), StringOf(r[1])>>>>>>
             ELSE LET exact == ConvExact(x, a, b)
                      mag == ConvMagnitude(x, a, b)
                  IN Need(Close(ExactOfF64(r[3]), exact, mag), "C16", <<"conversion is not (x*scale_a + off_a - off_b) / scale_b", StringOf(SymbolOf(a)), StringOf(r[1])>>)
                     \o Need(r[4][1] = "ok" /\ F64Class(r[4][2]) = "fin" /\ Close(ExactOfF64(r[4][2]), x, DecDiv(DecMul(mag, b.scale), a.scale)),
                             "C16", <<"converting back does not return the quantity", StringOf(SymbolOf(a)), StringOf(r[1])>>))
            \o ConvBad(a, x, rs, i + 1)

CheckConv(e) ==
    LET ia == UI(e.a) IN
    IF ia = 0 THEN <<<<"SPEC", <<"unknown unit in trace", StringOf(e.a)>>>>>>
    ELSE Need(Len(e.results) = Len(U), "C16", <<"harness did not cover all units", Len(e.results)>>)
         \o ConvBad(U[ia], ExactOfF64(e.x), e.results, 1)

RECURSIVE MulDivBad(_, _, _)
MulDivBad(a, rs, i) ==
    IF i > Len(rs) THEN <<>>
    ELSE LET r == rs[i]
             b == U[UI(r[1])]
         IN Need(r[2][1] # "panic" /\ r[3][1] # "panic", "C16", <<"unit product / quotient panicked", StringOf(SymbolOf(a)), StringOf(r[1])>>)
            \o (IF r[2][1] = "ok" THEN Need(UI(r[2][2]) # 0 /\ ProductOk(U[UI(r[2][2])], a, b), "C16",
                                            <<"product unit has the wrong dimension or scale", StringOf(SymbolOf(a)), StringOf(r[1]), StringOf(r[2][2])>>) ELSE <<>>)
            \o (IF r[3][1] = "ok" THEN Need(UI(r[3][2]) # 0 /\ QuotientOk(U[UI(r[3][2])], a, b), "C16",
                                            <<"quotient unit has the wrong dimension or scale", StringOf(SymbolOf(a)), StringOf(r[1]), StringOf(r[3][2])>>) ELSE <<>>)
            \o MulDivBad(a, rs, i + 1)
CheckMulDiv(e) == LET ia == UI(e.a) IN IF ia = 0 THEN <<<<"SPEC", <<"unknown unit in trace">>>>>> ELSE MulDivBad(U[ia], e.results, 1)

\* Number arithmetic: same unit -> that unit; one unit-less -> the other's unit; different units: + - fail, * / follow the unit rule
RECURSIVE ArithBad(_, _, _, _)
ArithBad(a, b, ops, i) ==
    IF i > Len(ops) THEN <<>>
    ELSE LET o == ops[i]
             name == o[1]
             both == a.unit # <<>> /\ b.unit # <<>>
             value == F64Arith(name, a.bits, b.bits)
             valOk == o[3].k = "num" /\ SameBits(o[3].bits, value)
         IN Need(o[2] # "panic", "C16", <<"Number arithmetic panicked", name>>)
            \o (IF name \in {"add", "sub"} THEN
                  IF both /\ a.unit # b.unit THEN Need(o[2] = "err", "C16", <<"adding Numbers of different units must fail", name>>)
                  ELSE Need(o[2] = "ok" /\ valOk /\ o[3].unit = (IF a.unit # <<>> THEN a.unit ELSE b.unit), "C16", <<"sum keeps the common unit", name, o[2]>>)
                ELSE IF ~both THEN Need(o[2] = "ok" /\ valOk /\ o[3].unit = (IF a.unit # <<>> THEN a.unit ELSE b.unit), "C16", <<"product with a unit-less Number", name, o[2]>>)
                ELSE IF o[2] = "ok" THEN
                     LET ua == U[UI(a.unit[1])]  ub == U[UI(b.unit[1])]
                         ur == IF o[3].unit = <<>> THEN 0 ELSE UI(o[3].unit[1])
                     IN Need(valOk /\ ur # 0 /\ (IF name = "mul" THEN ProductOk(U[ur], ua, ub) ELSE QuotientOk(U[ur], ua, ub)), "C16", <<"product / quotient of Numbers", name>>)
                ELSE <<>>)
            \o ArithBad(a, b, ops, i + 1)

\* Number + / - of unit a with every database unit: accepted exactly for a itself, and the result carries a
CheckAddSub(e) ==
    Need(\A k \in 1..Len(e.accepted) : e.accepted[k][1] = e.a /\ e.accepted[k][3] = "ok" /\ e.accepted[k][4] = e.a, "C16",
         <<"Numbers of different units were added / subtracted (or the sum lost its unit)", e.a,
           IF \E k \in 1..Len(e.accepted) : e.accepted[k][1] # e.a THEN e.accepted[CHOOSE k \in 1..Len(e.accepted) : e.accepted[k][1] # e.a] ELSE <<>>>>)
    \o Need(\A nm \in {"add", "sub"} : \E k \in 1..Len(e.accepted) : e.accepted[k][1] = e.a /\ e.accepted[k][2] = nm, "C16",
            <<"Numbers of the same unit could not be added / subtracted", e.a>>)

Check(e) == CASE e.op = "units.lookup" -> CheckLookup(e)
              [] e.op = "units.addsub" -> CheckAddSub(e)
              [] e.op = "units.codec" -> CheckCodec(e)
              [] e.op = "units.conv" -> CheckConv(e)
              [] e.op = "units.muldiv" -> CheckMulDiv(e)
              [] e.op = "units.arith" -> ArithBad(e.a, e.b, e.ops, 1)
              [] OTHER -> <<<<"SPEC", <<"unknown op", e.op>>>>>>

Init == l = 1 /\ nbad = 0 /\ idx = IdxOf /\ U = Units
Next == \/ /\ l <= Len(Rec)
           /\ LET r == Check(Rec[l]) IN Report(Rec[l].i, r, 1) /\ nbad' = nbad + Len(r)
           /\ l' = l + 1 /\ UNCHANGED <<idx, U>>
        \/ /\ l = Len(Rec) + 1
           /\ PrintT("CONSUMED " \o ToString(Len(Rec)) \o " " \o ToString(nbad))
           /\ l' = l + 1 /\ nbad' = nbad /\ UNCHANGED <<idx, U>>
Spec == Init /\ [][Next]_<<l, nbad, idx, U>>
=============================================================================

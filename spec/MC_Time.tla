------------------------------ MODULE MC_Time ------------------------------
(***************************************************************************)
(* The time part of the specification checked against itself:               *)
(* for every RFC 3339 offset from -12:00 to +14:00 in 15 minute steps,      *)
(* corner instants and 0..9 fraction digits,                                *)
(*   reading the written text gives back the instant and the offset,        *)
(*   in RFC 3339 (Hayson) and in Zinc spelling.                             *)
(* Emits the texts as vectors for libhaystack's RFC 3339 constructors.      *)
(***************************************************************************)
EXTENDS HsTime, TLC, Json

CONSTANTS EmitVectors, Full
VARIABLES day, sod, ns, off, nd
vars == <<day, sod, ns, off, nd>>

Offsets == {q * 900 : q \in -48..56}
Days == IF Full THEN {DaysFromCivil(1980, 1, 1), DaysFromCivil(1999, 12, 31), DaysFromCivil(2000, 2, 29), DaysFromCivil(2021, 3, 14),
                      DaysFromCivil(2024, 2, 29), DaysFromCivil(2059, 12, 31)}
        ELSE {DaysFromCivil(1980, 1, 1), DaysFromCivil(2000, 2, 29), DaysFromCivil(2059, 12, 31)}
Sods == IF Full THEN {0, 1, 43200, 86399} ELSE {0, 86399}
\* 45000001: zeros in front of and inside the fraction at every truncation length
Nanos == IF Full THEN {0, 500000000, 123456789, 999999999, 1, 45000001, 7000} ELSE {123456789, 45000001}

Init == day \in Days /\ sod \in Sods /\ ns \in Nanos /\ off \in Offsets /\ nd \in 0..9
Next == UNCHANGED vars
Spec == Init /\ [][Next]_vars

Text == Rfc3339With(day, sod, ns, off, nd, TRUE)
TextNoZ == Rfc3339With(day, sod, ns, off, nd, FALSE)
Expected == [day |-> day, sod |-> sod, ns |-> TruncNs(ns, nd)]

RfcRoundTrip == LET r == ReadRfc3339(Text) IN r.ok /\ InstantOf(r.v) = Expected /\ r.v.off = off
RfcNoZRoundTrip == LET r == ReadRfc3339(TextNoZ) IN r.ok /\ InstantOf(r.v) = Expected /\ r.v.off = off
\* Zinc spelling = RFC 3339 text followed by the zone name
ZincRoundTrip == LET t == Text \o (IF off = 0 THEN <<>> ELSE <<32>> \o CodePoints("Zone"))
                     r == ReadDateTime(t, 1)
                 IN r.ok /\ InstantOf(r.v) = Expected /\ r.v.off = off /\ r.p = Len(t) + 1
Emit == EmitVectors => PrintT("VEC " \o ToJson([op |-> "time.parse", text |-> Text, textnoz |-> TextNoZ]))
=============================================================================

----------------------------- MODULE Trace_CApi -----------------------------
(***************************************************************************)
(* Validates recorded histories of C API calls against CApi.tla (C17) and   *)
(* the ownership accounting of C18.  The trace is stateful: the pool of     *)
(* live handles with their abstract values, the filter handles, the error   *)
(* slot, the outstanding C strings.  Each event is one extern "C" call:     *)
(*   c    the call (function name and named arguments)                      *)
(*   ret  what it returned, projected                                       *)
(*   post the projection of every value handle the call may have touched    *)
(* capi.begin starts a history with an empty pool; capi.end closes it and   *)
(* carries the sanitizer verdict of the process (C18).                      *)
(***************************************************************************)
EXTENDS CApi, TraceBase, UnitsDb

VARIABLES l, nbad, st, strs

Empty == [pool |-> <<>>, filters |-> <<>>, err |-> FALSE]
SeqToFun(pairs) == [h \in {pairs[i][1] : i \in 1..Len(pairs)} |-> pairs[CHOOSE i \in 1..Len(pairs) : pairs[i][1] = h][2]]
PostOf(e) == SeqToFun(e.post)

RvDecidable(rv) ==
    /\ UnitsIn(rv) \subseteq UnitSymbols
    /\ \A x \in Parts(rv) :
          /\ x.k # "dt"
          /\ (x.k = "num" /\ x.cls = "fin" => F64Class(F64OfNumeral(x.numeral)) = "fin")
          /\ (x.k = "coord" => F64Class(F64OfNumeral(x.lat)) = "fin" /\ F64Class(F64OfNumeral(x.lng)) = "fin")
          /\ (x.k = "grid" => Len(x.cols) >= 1 /\ \A i, j \in 1..Len(x.cols) : i # j => x.cols[i].name # x.cols[j].name)
          \* an empty line inside a one-column grid: a row without cells by the row production, the end of the grid by every
          \* reader - the grammar is ambiguous there (the recorded finding zinc-single-column-empty-row), no claim is made
          /\ (x.k = "grid" /\ Len(x.cols) = 1 => \A r \in 1..Len(x.rows) : x.rows[r] # <<>>)

\* a timestamp whose zone offset has seconds (local mean time before standard time) has no exact RFC 3339 text: what the
\* Rust encoders write for it is the subject of C01 / C11 (recorded finding zinc-lmt-offset-seconds), not of the C boundary
SubMinuteOffset(v) == \E x \in Parts(v) : x.k = "dt" /\ x.off % 60 # 0

RetSame(want, got) ==
    CASE want.r = "f64" -> got.r = "f64" /\ SameBits(want.bits, got.bits)
      [] want.r = "f64nan" -> got.r = "f64" /\ F64Class(got.bits) = "nan"
      [] want.r = "anystr" -> got.r = "str"
      [] want.r = "res" /\ "entry" \in DOMAIN want -> got.r = "res" /\ got.v = want.v /\ "entry" \in DOMAIN got /\ Same(got.entry, want.entry)
      [] want.r = "res" -> got.r = "res" /\ got.v = want.v
      [] OTHER -> got = want

\* every logged handle projection agrees with the expected pool; handles the pool does not have are not logged
PostAgrees(pool, e) ==
    LET p == PostOf(e) IN \A h \in DOMAIN p : h \in DOMAIN pool /\ Same(p[h], pool[h])

Fn(e) == e.c.fn
IsSentinel(r) == r.r \in {"null", "max", "f64"} \/ (r.r = "res" /\ r.v = -1) \/ (r.r = "bool" /\ ~r.b)

\* returns <<reasons, st'>>
Judge(e) ==
    LET c == e.c
        x == Apply(st, c)
        unchanged == PostAgrees(st.pool, e)
        newOk == e.ret.r = "handle" /\ e.ret.h = c.newh /\ c.newh \notin DOMAIN st.pool /\ c.newh \in DOMAIN PostOf(e)
        newVal == PostOf(e)[c.newh]
        withNew == [pool |-> PoolPut(st, c.newh, newVal), filters |-> st.filters, err |-> st.err]
        failed == [pool |-> st.pool, filters |-> st.filters, err |-> TRUE]
        \* failure as observed: sentinel, nothing changed
        obsFail == RetSame(x.ret, e.ret) /\ unchanged
    IN
    CASE x.kind = "ok" ->
           <<Need(RetSame(x.ret, e.ret), "C17", <<Fn(e), "returned", e.ret, "expected", x.ret>>)
             \o Need(PostAgrees(x.pool, e), "C17", <<Fn(e), "left a handle with another value than the Rust operation gives">>),
             [pool |-> x.pool, filters |-> x.filters, err |-> x.err]>>
      [] x.kind = "fail" ->
           <<Need(RetSame(x.ret, e.ret), "C17", <<Fn(e), "failure not reported by the sentinel", e.ret>>)
             \o Need(unchanged, "C17", <<Fn(e), "failure changed a handle">>),
             failed>>
      [] x.kind = "lenient" ->
           IF e.ret.r = "handle" THEN <<Need(newOk, "C17", <<Fn(e), "bad new handle">>), IF newOk THEN withNew ELSE st>>
           ELSE <<Need(obsFail \/ (e.ret.r = "null" /\ unchanged), "C17", <<Fn(e), "neither a value nor the sentinel", e.ret>>),
                  [failed EXCEPT !.err = IF Fn(e) = "haystack_value_get_ref_dis" THEN st.err ELSE TRUE]>>
      [] x.kind = "zinctext" ->
           IF e.ret.r = "str" THEN <<Need(~WFv(V(st, c.h), UnitSymbols) \/ SubMinuteOffset(V(st, c.h)) \/ ZincDenotes(e.ret.s, V(st, c.h)), "C17", <<Fn(e), "text does not denote the value", StringOf(e.ret.s)>>) \o Need(unchanged, "C17", <<Fn(e), "changed a handle">>), st>>
           ELSE <<Need(e.ret.r = "null" /\ unchanged /\ \E p \in Parts(V(st, c.h)) : p.k \in {"str", "uri", "ref", "xstr", "symbol", "dict", "grid"} , "C17", <<Fn(e), "failed on an encodable value">>), failed>>
      [] x.kind = "jsontext" ->
           IF e.ret.r = "str" THEN <<Need(~WFv(V(st, c.h), UnitSymbols) \/ SubMinuteOffset(V(st, c.h)) \/ (e.tree.j # "none" /\ HaysonDenotes(e.tree, V(st, c.h))), "C17", <<Fn(e), "JSON does not denote the value">>) \o Need(unchanged, "C17", <<Fn(e), "changed a handle">>), st>>
           ELSE <<Need(e.ret.r = "null" /\ unchanged, "C17", <<Fn(e), "failed">>), failed>>
      [] x.kind = "fromzinc" ->
           LET r == ZincRead(c.s.s) IN
           IF r.ok /\ RvDecidable(r.v) /\ ~DebatableEsc(c.s.s)
           THEN <<Need(newOk, "C17", <<Fn(e), "sentence rejected", StringOf(c.s.s)>>)
                  \o (IF newOk THEN Need(Denotes(r.v, newVal), "C17", <<Fn(e), "sentence misread", StringOf(c.s.s)>>) ELSE <<>>),
                  IF newOk THEN withNew ELSE failed>>
           ELSE IF e.ret.r = "handle" THEN <<Need(newOk, "C17", <<Fn(e), "bad new handle">>), IF newOk THEN withNew ELSE st>>
           ELSE <<Need(e.ret.r = "null" /\ unchanged, "C17", <<Fn(e), "neither a value nor NULL">>), failed>>
      [] x.kind = "fromjson" ->
           LET r == HaysonRead(c.tree) IN
           IF r.ok /\ RvDecidable(r.v)
           THEN <<Need(newOk, "C17", <<Fn(e), "document rejected">>)
                  \o (IF newOk THEN Need(Denotes(r.v, newVal), "C17", <<Fn(e), "document misread">>) ELSE <<>>),
                  IF newOk THEN withNew ELSE failed>>
           ELSE IF e.ret.r = "handle" THEN <<Need(newOk, "C17", <<Fn(e), "bad new handle">>), IF newOk THEN withNew ELSE st>>
           ELSE <<Need(e.ret.r = "null" /\ unchanged, "C17", <<Fn(e), "neither a value nor NULL">>), failed>>
      [] x.kind = "filterparse" ->
           LET r == FParse(c.s.s) IN
           IF r.ok /\ FDecidable(r.v)
           THEN LET good == e.ret.r = "filter" /\ e.ret.fid = c.newf /\ c.newf \notin DOMAIN st.filters /\ FDenotes(r.v, e.ftree) IN
                <<Need(good, "C17", <<Fn(e), "filter rejected or misparsed", StringOf(c.s.s)>>),
                  IF good THEN [pool |-> st.pool, err |-> st.err,
                                filters |-> [f \in DOMAIN st.filters \cup {c.newf} |-> IF f = c.newf THEN e.ftree ELSE st.filters[f]]]
                  ELSE failed>>
           ELSE <<Need(e.ret.r = "null", "C17", <<Fn(e), "the harness offers only sentences or plainly invalid text", StringOf(c.s.s)>>), failed>>
      [] x.kind = "truth" ->
           <<Need(e.ret.r = "res" /\ (x.ret = "U" \/ e.ret.v = (IF x.ret = "T" THEN 1 ELSE 0)), "C17", <<Fn(e), "truth value", e.ret, x.ret>>)
             \o Need(unchanged, "C17", <<Fn(e), "changed a handle">>), st>>
      [] x.kind \in {"firstmatch", "allmatch"} ->
           LET g == V(st, c.h)
               f == st.filters[c.fid]
               hit == SelectSeq(g.rows, LAMBDA row : Eval(f, row) = "T")
               sure == \A i \in 1..Len(g.rows) : Eval(f, g.rows[i]) # "U"
           IN IF ~sure THEN <<<<>>, [st EXCEPT !.pool = IF c.h2 \in DOMAIN PostOf(e) THEN PoolPut(st, c.h2, PostOf(e)[c.h2]) ELSE st.pool]>>
              ELSE IF x.kind = "firstmatch" THEN
                   IF hit = <<>> THEN <<Need(e.ret = Res(0) /\ unchanged, "C17", <<Fn(e), "no row matches", e.ret>>), st>>
                   ELSE LET p == PoolPut(st, c.h2, Dict(hit[1])) IN
                        <<Need(e.ret = Res(1) /\ PostAgrees(p, e), "C17", <<Fn(e), "first matching row">>), [st EXCEPT !.pool = p]>>
              ELSE LET p == PoolPut(st, c.h2, GridFromDicts(hit, g.meta)) IN
                   <<Need(e.ret = Res(IF hit = <<>> THEN 0 ELSE 1) /\ PostAgrees(p, e), "C17", <<Fn(e), "matching rows", e.ret>>), [st EXCEPT !.pool = p]>>
      [] x.kind = "protocol" -> <<<<<<"SPEC", <<"harness broke the ownership protocol", Fn(e)>>>>>>, st>>
      [] OTHER -> <<<<<<"SPEC", <<"function not modelled in CApi.tla", Fn(e)>>>>>>, st>>

StrsAfter(e) ==
    IF e.op # "capi" THEN 0
    ELSE IF Fn(e) = "haystack_string_destroy" THEN strs - 1
    ELSE IF e.ret.r = "str" THEN strs + 1 ELSE strs

Check(e) ==
    CASE e.op = "capi.begin" -> <<<<>>, Empty>>
      [] e.op = "capi" ->
           IF e.monitor # "ok" THEN <<<<<<"C18", <<Fn(e), "the process died inside the C boundary", e.monitor>>>>>>, Empty>>
           ELSE (LET j == Judge(e)
                     p == PostOf(e)
                     \* resynchronise on what the implementation really holds, so that one defect is reported once
                     synced == [h \in DOMAIN j[2].pool \cup DOMAIN p |-> IF h \in DOMAIN p THEN p[h] ELSE j[2].pool[h]]
                 IN <<j[1], [j[2] EXCEPT !.pool = synced]>>)
      [] e.op = "capi.end" ->
           <<Need(DOMAIN st.pool = {} /\ strs = 0, "C18", <<"handles or strings outstanding after the clean-up suffix", strs>>)
             \o Need(e.asan = "ok", "C18", <<"sanitizer", e.asan>>), Empty>>
      [] e.op = "capi.selftest" ->
           <<Need(e.skipped \/ (e.leak_detected /\ e.double_destroy_detected), "SPEC", <<"sanitizer monitor missed a planted leak / double destroy">>), st>>
      [] e.op = "capi.null" ->
           <<Need(e.monitor = "ok", "C18", <<"null argument", e.fn, e.param, e.monitor>>)
             \o Need(e.sentinel, "C18", <<"null argument not reported by the sentinel", e.fn, e.param>>)
             \o Need(e.err_set, "C18", <<"null argument left no retrievable error", e.fn, e.param>>), st>>
      [] OTHER -> <<<<<<"SPEC", <<"unknown op", e.op>>>>>>, st>>

Init == l = 1 /\ nbad = 0 /\ st = Empty /\ strs = 0
Next == \/ /\ l <= Len(Rec)
           /\ LET e == Rec[l]
                  r == Check(e)
              IN /\ Report(e.i, r[1], 1) /\ nbad' = nbad + Len(r[1])
                 /\ st' = r[2]
                 /\ strs' = StrsAfter(e)
           /\ l' = l + 1
        \/ /\ l = Len(Rec) + 1
           /\ PrintT("CONSUMED " \o ToString(Len(Rec)) \o " " \o ToString(nbad))
           /\ l' = l + 1 /\ UNCHANGED <<nbad, st, strs>>
Spec == Init /\ [][Next]_<<l, nbad, st, strs>>
=============================================================================

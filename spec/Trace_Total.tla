---------------------------- MODULE Trace_Total ----------------------------
(***************************************************************************)
(* Validates decoder executions on arbitrary input (C03), what happens to   *)
(* the values they return (C10, C11) and stream decoding (C11).             *)
(* Crashes / hangs / aborts are observed by the harness (catch_unwind,      *)
(* worker process with a time limit, child exit status) and logged as the   *)
(* outcome; this specification states which outcomes are admissible and     *)
(* judges everything that is a value.                                       *)
(*                                                                          *)
(* dec.zinc : bytes given to from_str, Parser::parse_value (over a reader)  *)
(*            and the lazy row iterator; the accepted value re-encoded      *)
(*   C03  every decode outcome is ok or err                                 *)
(*   C04  if the bytes are a sentence of Zinc.tla, from_str accepts them    *)
(*        and returns the value the sentence denotes                        *)
(*   C11  reader decoding = buffer decoding; iterator rows = the grid's     *)
(*        rows; encode(decode(t)) decodes to the same value                 *)
(*   C10  encoding a decoder image (Zinc, Hayson, display) never panics     *)
(* dec.json : same for serde_json::from_slice / from_str                    *)
(* dec.bomb : nesting bombs run in a child process                          *)
(* dec.sched: decoding under a reader schedule (chunk sizes, Interrupted,   *)
(*            I/O error at an offset), with the bytes consumed when each    *)
(*            row was handed out                                            *)
(***************************************************************************)
EXTENDS Hayson, TraceBase, UnitsDb

VARIABLES l, nbad

Fatal == {"panic", "timeout", "abort"}

\* The "specification accepts it, so libhaystack must" half is claimed only where the specification can decide that
\* the sentence denotes a well-formed value: units are database symbols, numerals are in binary64 range, no
\* timestamp (whether a zone name exists is a fact of the tz database, not of the grammar: C06 covers those),
\* none of the optional Uri escapes whose meaning the published grammar leaves open, no duplicate JSON members.
RvDecidable(rv) ==
    /\ UnitsIn(rv) \subseteq UnitSymbols
    /\ \A x \in Parts(rv) :
          /\ x.k # "dt"
          /\ (x.k = "num" /\ x.cls = "fin" => F64Class(F64OfNumeral(x.numeral)) = "fin")
          /\ (x.k = "coord" => F64Class(F64OfNumeral(x.lat)) = "fin" /\ F64Class(F64OfNumeral(x.lng)) = "fin")
          /\ (x.k = "grid" => Len(x.cols) >= 1 /\ \A i, j \in 1..Len(x.cols) : i # j => x.cols[i].name # x.cols[j].name)
          \* an empty line inside a one-column grid: a row without cells by the row production, the end of the grid by every
          \* reader - the grammar is ambiguous there (the recorded finding zinc-single-column-empty-row), no claim is made
          /\ (x.k = "grid" /\ Len(x.cols) = 1 => \A r \in 1..Len(x.rows) : x.rows[r] # <<>>)
RECURSIVE NoDupMembers(_)
NoDupMembers(t) ==
    CASE t.j = "obj" -> /\ \A i, j \in 1..Len(t.mem) : i # j => t.mem[i][1] # t.mem[j][1]
                        /\ \A i \in 1..Len(t.mem) : NoDupMembers(t.mem[i][2])
      [] t.j = "arr" -> \A i \in 1..Len(t.items) : NoDupMembers(t.items[i])
      [] OTHER -> TRUE
Total(o) == o \in {"ok", "err", "skipped"}

ReencChecks(e, first, fmt) ==
    Need(e.reenc.zinc.outcome \notin Fatal, "C10", <<"zinc encoder on a decoder image", e.reenc.zinc.outcome, e.reenc.zinc.msg>>)
    \o Need(e.reenc.json.outcome \notin Fatal, "C10", <<"hayson encoder on a decoder image", e.reenc.json.outcome, e.reenc.json.msg>>)
    \o Need(e.reenc.display \notin Fatal, "C10", <<"display of a decoder image", e.reenc.display>>)
    \o (IF first.outcome # "ok" THEN <<>>
        ELSE LET r == IF fmt = "zinc" THEN e.reenc.zinc ELSE e.reenc.json IN
             IF r.outcome \in Fatal THEN <<>>
             ELSE Need(r.outcome = "ok", "C11", <<"re-encoded text not accepted", fmt, r.outcome, r.msg>>)
                  \o (IF r.outcome = "ok" THEN Need(Same(r.back, first.back), "C11", <<"re-encoding not stable", fmt>> \o Diff(first.back, r.back)) ELSE <<>>))

RowsSame(a, b) == Len(a) = Len(b) /\ \A i \in 1..Len(a) : SameTags(a[i], b[i])

CheckZinc(e) ==
    LET main == IF e.utf8 THEN e.from_str ELSE e.parser IN
    Need(Total(e.from_str.outcome), "C03", <<"from_str", e.from_str.outcome, e.from_str.msg>>)
    \o Need(Total(e.parser.outcome), "C03", <<"Parser::parse_value", e.parser.outcome, e.parser.msg>>)
    \o Need(Total(e.iter.outcome), "C03", <<"parse_grid_iterator", e.iter.outcome, e.iter.msg>>)
    \o (IF e.utf8 /\ Total(e.from_str.outcome) /\ Total(e.parser.outcome)
        THEN Need(e.parser.outcome = e.from_str.outcome, "C11", <<"reader and buffer decoding disagree", e.from_str.outcome, e.parser.outcome>>)
             \o (IF e.parser.outcome = "ok" /\ e.from_str.outcome = "ok"
                 THEN Need(Same(e.parser.back, e.from_str.back), "C11", <<"reader and buffer decoding differ">> \o Diff(e.from_str.back, e.parser.back))
                 ELSE <<>>)
        ELSE <<>>)
    \o (IF main.outcome = "ok" /\ main.back.k = "grid" /\ Total(e.iter.outcome)
        THEN Need(e.iter.outcome = "ok" /\ RowsSame(e.iter.rows, main.back.rows), "C11", <<"lazy iterator rows differ from the grid's rows", e.iter.outcome>>)
        ELSE <<>>)
    \o (IF e.utf8 THEN
          LET r == ZincRead(e.text) IN
          \* sentences carrying a unit text that is not a database symbol denote no well-formed value (lookup by
          \* the other identifiers is C15's subject)
          IF r.ok /\ RvDecidable(r.v) /\ ~DebatableEsc(e.text) THEN Need(e.from_str.outcome = "ok", "C04", <<"sentence rejected", e.from_str.msg>>)
                       \o (IF e.from_str.outcome = "ok" THEN Need(Denotes(r.v, e.from_str.back), "C04", <<"sentence misread">>) ELSE <<>>)
          ELSE <<>>
        ELSE <<>>)
    \o ReencChecks(e, main, "zinc")

CheckJson(e) ==
    Need(Total(e.from_slice.outcome), "C03", <<"serde_json::from_slice", e.from_slice.outcome, e.from_slice.msg>>)
    \o Need(Total(e.from_str.outcome), "C03", <<"serde_json::from_str", e.from_str.outcome, e.from_str.msg>>)
    \o (IF e.utf8 /\ e.from_slice.outcome = "ok" /\ e.from_str.outcome = "ok"
        THEN Need(Same(e.from_slice.back, e.from_str.back), "C11", <<"from_slice and from_str differ">>) ELSE <<>>)
    \o (IF e.tree.j # "none" THEN
          LET r == HaysonRead(e.tree) IN
          IF r.ok /\ RvDecidable(r.v) /\ NoDupMembers(e.tree) THEN Need(e.from_slice.outcome = "ok", "C05", <<"document rejected", e.from_slice.msg>>)
                       \o (IF e.from_slice.outcome = "ok" THEN Need(Denotes(r.v, e.from_slice.back), "C05", <<"document misread">>) ELSE <<>>)
          ELSE <<>>
        ELSE <<>>)
    \o ReencChecks(e, e.from_slice, "json")

CheckBomb(e) ==
    Need(e.outcome \in {"ok", "err"}, IF e.fmt = "filter" THEN "C09" ELSE "C03",
         <<"nesting bomb", e.fmt, e.open, e.n, e.outcome>>)

\* ---- laziness bound (C11) ----
\* positions just after the newline terminating each row of a top-level grid text
RECURSIVE RowEndsFrom(_, _, _, _)
RowEndsFrom(t, p, cols, acc) ==
    IF p > Len(t) \/ (AfterNl(t, p) # 0 /\ AfterNl(t, p) > Len(t)) THEN acc
    ELSE LET r == ReadCells(t, p, cols, 1, <<>>) IN
         IF ~r.ok THEN acc ELSE RowEndsFrom(t, r.p, cols, Append(acc, r.p))
GridRowEnds(t) ==
    LET ver == ReadQuoted(t, 5, 34, FALSE)
        m == IF SkipSp(t, ver.p) = ver.p THEN Ok(<<>>, ver.p) ELSE ReadTags(t, SkipSp(t, ver.p), FALSE, <<>>)
        n1 == AfterNl(t, SkipSp(t, m.p))
        cs == ReadCols(t, SkipSp(t, n1), <<>>)
        n2 == AfterNl(t, SkipSp(t, cs.p))
    IN RowEndsFrom(t, n2, cs.v, <<>>)
\* end of the first token at or after p (a scalar, or one structural character)
NextTokenEnd(t, p) ==
    LET q == SkipSp(t, p)
        c == At(t, q)
    IN IF c = -1 THEN q
       ELSE IF c \in {91, 93, 123, 125, 60, 62, 44, 58, 10, 13} THEN q + 1
       ELSE LET r == ReadVal(t, q) IN IF r.ok THEN r.p ELSE q + 1
Slack == 16     \* the lexer's bounded look-ahead (number / date disambiguation peeks a few bytes)
StreamSlack == 4      \* bytes of look-ahead admitted beyond the stream machine's own (observed: 2)

RECURSIVE LazyOk(_, _, _, _)
LazyOk(t, ends, consumed, i) ==
    IF i > Len(consumed) THEN TRUE
    ELSE /\ i <= Len(ends)
         /\ consumed[i] <= NextTokenEnd(t, ends[i]) - 1 + Slack
         /\ LazyOk(t, ends, consumed, i + 1)

CheckSched(e) ==
    Need(Total(e.got.outcome) /\ Total(e.rows.outcome) /\ Total(e.base.outcome) /\ Total(e.base_rows.outcome), "C03",
         <<"decoding under a reader schedule", e.schedule, e.fail_at, e.got.outcome, e.rows.outcome>>)
    \o (IF e.fail_at >= 0 \/ ~(Total(e.got.outcome) /\ Total(e.rows.outcome) /\ Total(e.base.outcome) /\ Total(e.base_rows.outcome)) THEN <<>>
        ELSE Need(e.got.outcome = e.base.outcome, "C11", <<"chunking changes the outcome", e.schedule>>)
             \o (IF e.got.outcome = "ok" /\ e.base.outcome = "ok"
                 THEN Need(Same(e.got.back, e.base.back), "C11", <<"chunking changes the value", e.schedule>>) ELSE <<>>)
             \o Need(e.rows.outcome = e.base_rows.outcome /\ RowsSame(e.rows.rows, e.base_rows.rows), "C11",
                     <<"chunking changes the rows of the lazy iterator", e.schedule>>)
             \o (IF e.rows.outcome = "ok" /\ e.ascii
                 THEN Need(LazyOk(e.text, GridRowEnds(e.text), e.rows.consumed, 1), "C11",
                           <<"lazy iterator consumed the stream beyond the first token after a row", e.rows.consumed>>)
                 ELSE <<>>))

\* ---- terminal states of MC_ZincStream replayed through the real lazy iterator (dec.stream) ----
\* the row the model hands out (cells = digit sequences, empty = absent) as the tags of a row under the columns a b c d
StreamCols == <<<<97>>, <<98>>, <<99>>, <<100>>>>
RECURSIVE StreamTags(_, _)
StreamTags(cells, i) ==
    IF i > Len(cells) THEN <<>>
    ELSE (IF cells[i] = <<>> THEN <<>> ELSE <<<<StreamCols[i], [k |-> "num", bits |-> F64OfNumeral(cells[i]), unit |-> <<>>]>>>>) \o StreamTags(cells, i + 1)
\* the body is in the language both sides read the same way: no empty line (which ends a Zinc grid) 
NoEmptyLine(body) == (body = <<>> \/ body[1] # 10) /\ \A i \in 1..(Len(body) - 1) : ~(body[i] = 10 /\ body[i + 1] = 10)
RECURSIVE StreamRuns(_, _)
StreamRuns(e, k) ==
    IF k > Len(e.runs) THEN <<>>
    ELSE LET r == e.runs[k]
             \* rows before the first empty line are read the same way by both sides (what follows an empty line is no
             \* part of the grid; libhaystack's reading of such non-sentences is not judged)
             upto == IF \E i \in 1..Len(e.mref) : e.mref[i] = <<<<>>>> THEN (CHOOSE i \in 1..Len(e.mref) : e.mref[i] = <<<<>>>> /\ \A j \in 1..(i - 1) : e.mref[j] # <<<<>>>>) - 1
                     ELSE Len(e.mref)
             n == IF Len(r.rows) < upto THEN Len(r.rows) ELSE upto
         IN Need(r.outcome \in {"ok", "err"}, "C03", <<"lazy iterator under a reader schedule", r.schedule, e.fail_at, r.outcome, r.msg>>)
            \o Need(\A i \in 1..n : SameTags(r.rows[i], StreamTags(e.mref[i], 1)), "C11",
                    <<"lazy iterator handed out a row that is not the row of the text", r.schedule, e.fail_at>>)
            \* (the stream machine does not count columns: a body with a row of more cells than the header has columns is no
            \* sentence, libhaystack rejects it, and nothing is claimed about it beyond the rows handed out before)
            \o (IF e.fail_at = -1 /\ e.merr = "none" /\ NoEmptyLine(e.body) /\ r.outcome \in {"ok", "err"}
                   /\ \A i \in 1..Len(e.mref) : Len(e.mref[i]) <= Len(StreamCols)
                THEN Need(r.outcome = "ok" /\ Len(r.rows) = Len(e.mrows), "C11", <<"lazy iterator: rows differ from the stream machine's", r.schedule, r.outcome, Len(r.rows), Len(e.mrows)>>)
                     \o Need(\A i \in 1..n : i > Len(e.myield) \/ r.consumed[i] - e.hdr <= e.myield[i] + StreamSlack, "C11",
                             <<"lazy iterator consumed the stream beyond the first token after a row", r.schedule, r.consumed, e.myield>>)
                ELSE <<>>)
            \o StreamRuns(e, k + 1)
CheckStream(e) == StreamRuns(e, 1)

CheckStabHead(e) ==
    Need(e.outcome = "ok", "C11", <<"corpus file not decodable / re-encodable", e.path, e.outcome>>)
    \o (IF e.outcome = "ok" THEN Need(Same(e.a, e.b) /\ e.na = e.nb, "C11", <<"corpus file: re-encoding not stable", e.path>> \o Diff(e.a, e.b)) ELSE <<>>)
CheckStabRow(e) == Need(SameTags(e.a, e.b), "C11", <<"corpus file: re-encoding not stable", e.path, "row", e.row>> \o DiffTags(e.a, e.b, "cell"))

Check(e) == CASE e.op = "dec.zinc" -> CheckZinc(e)
              [] e.op = "stab.head" -> CheckStabHead(e)
              [] e.op = "stab.row" -> CheckStabRow(e)
              [] e.op = "dec.json" -> CheckJson(e)
              [] e.op = "dec.bomb" -> CheckBomb(e)
              [] e.op = "dec.sched" -> CheckSched(e)
              [] e.op = "dec.stream" -> CheckStream(e)
              [] OTHER -> <<<<"SPEC", <<"unknown op", e.op>>>>>>

Init == l = 1 /\ nbad = 0
Next == \/ /\ l <= Len(Rec)
           /\ LET r == Check(Rec[l]) IN Report(Rec[l].i, r, 1) /\ nbad' = nbad + Len(r)
           /\ l' = l + 1
        \/ /\ l = Len(Rec) + 1
           /\ PrintT("CONSUMED " \o ToString(Len(Rec)) \o " " \o ToString(nbad))
           /\ l' = l + 1 /\ nbad' = nbad
Spec == Init /\ [][Next]_<<l, nbad>>
=============================================================================

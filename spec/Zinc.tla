-------------------------------- MODULE Zinc --------------------------------
(***************************************************************************)
(* The Zinc text format of Project Haystack, written from the published     *)
(* grammar (docHaystack/Zinc), as                                           *)
(*   - a total reader  ZincRead(text)  giving [ok|->TRUE, v|->read value]   *)
(*     or [ok|->FALSE, p, why];                                             *)
(*   - Denotes(rv, v): the read value rv denotes the abstract value v       *)
(*     (numbers: the numeral rounds to the value's binary64; timestamps:    *)
(*     the civil fields and offset give the instant);                       *)
(*   - a writer ZincWrite(v, st) parameterised by a style record st whose   *)
(*     fields are the legal spelling choices; ZincCanon = the plain style.  *)
(* Independent of the Rust code: this module is the "independent            *)
(* implementation written from the specification" of property C04.          *)
(***************************************************************************)
EXTENDS HsCore

At(t, p) == IF p >= 1 /\ p <= Len(t) THEN t[p] ELSE -1
Fail(p, why) == [ok |-> FALSE, p |-> p, why |-> why]
Ok(v, p) == [ok |-> TRUE, v |-> v, p |-> p]
IsSp(c) == c = 32 \/ c = 9

RECURSIVE SkipSp(_, _)
SkipSp(t, p) == IF IsSp(At(t, p)) THEN SkipSp(t, p + 1) ELSE p

\* newline: LF or CRLF; returns position after it, or 0
AfterNl(t, p) == IF At(t, p) = 10 THEN p + 1
                 ELSE IF At(t, p) = 13 /\ At(t, p + 1) = 10 THEN p + 2 ELSE 0

----------------------------------------------------------------------------
\* identifiers
RECURSIVE IdEnd(_, _)
IdEnd(t, p) == IF IsAlnum(At(t, p)) \/ At(t, p) = 95 THEN IdEnd(t, p + 1) ELSE p
\* tag / column name at p: returns end position (exclusive) or 0
TagNameEnd(t, p) == IF IsLower(At(t, p)) THEN IdEnd(t, p + 1) ELSE 0

----------------------------------------------------------------------------
\* strings: "..." with escapes  \b \f \n \r \t \" \\ \$ \uXXXX
\* (a pair of \u surrogates denotes one astral code point)
Hex4(t, p) == IF IsHex(At(t, p)) /\ IsHex(At(t, p + 1)) /\ IsHex(At(t, p + 2)) /\ IsHex(At(t, p + 3))
              THEN HexVal(t[p]) * 4096 + HexVal(t[p + 1]) * 256 + HexVal(t[p + 2]) * 16 + HexVal(t[p + 3])
              ELSE -1

\* one (possibly escaped) character of a quoted text; q = closing quote
\* returns [ok, c, p] ; uriMode allows the optional uri escapes
ReadChar(t, p, q, uriMode) ==
    LET c == At(t, p) IN
    IF c = -1 THEN Fail(p, "unterminated")
    ELSE IF c < 32 THEN Fail(p, "control character")
    ELSE IF c # 92 THEN [ok |-> TRUE, c |-> c, p |-> p + 1]
    ELSE LET e == At(t, p + 1) IN
         IF e = 117 THEN
            LET h == Hex4(t, p + 2) IN
            IF h = -1 THEN Fail(p, "bad unicode escape")
            ELSE IF h >= 55296 /\ h <= 56319 THEN
               \* high surrogate: must be followed by \uDC00..DFFF
               LET l == IF At(t, p + 6) = 92 /\ At(t, p + 7) = 117 THEN Hex4(t, p + 8) ELSE -1 IN
               IF l >= 56320 /\ l <= 57343
               THEN [ok |-> TRUE, c |-> 65536 + (h - 55296) * 1024 + (l - 56320), p |-> p + 12]
               ELSE Fail(p, "lone surrogate")
            ELSE IF h >= 56320 /\ h <= 57343 THEN Fail(p, "lone surrogate")
            ELSE [ok |-> TRUE, c |-> h, p |-> p + 6]
         ELSE IF e = 92 THEN [ok |-> TRUE, c |-> 92, p |-> p + 2]
         ELSE IF e = q THEN [ok |-> TRUE, c |-> q, p |-> p + 2]
         ELSE IF ~uriMode THEN
            CASE e = 98 -> [ok |-> TRUE, c |-> 8, p |-> p + 2]       \* \b
              [] e = 102 -> [ok |-> TRUE, c |-> 12, p |-> p + 2]     \* \f
              [] e = 110 -> [ok |-> TRUE, c |-> 10, p |-> p + 2]     \* \n
              [] e = 114 -> [ok |-> TRUE, c |-> 13, p |-> p + 2]     \* \r
              [] e = 116 -> [ok |-> TRUE, c |-> 9, p |-> p + 2]      \* \t
              [] e = 36 -> [ok |-> TRUE, c |-> 36, p |-> p + 2]      \* \$
              [] OTHER -> Fail(p, "bad escape")
         ELSE IF e \in {58, 47, 63, 35, 91, 93, 64, 38, 61, 59}      \* \: \/ \? \# \[ \] \@ \& \= \;
              THEN [ok |-> TRUE, c |-> e, p |-> p + 2]
         ELSE Fail(p, "bad escape")

RECURSIVE ReadQuotedFrom(_, _, _, _, _)
ReadQuotedFrom(t, p, q, uriMode, acc) ==
    IF At(t, p) = q THEN Ok(acc, p + 1)
    ELSE LET r == ReadChar(t, p, q, uriMode) IN
         IF ~r.ok THEN r ELSE ReadQuotedFrom(t, r.p, q, uriMode, Append(acc, r.c))
\* text starting with the opening quote at p
ReadQuoted(t, p, q, uriMode) ==
    IF At(t, p) # q THEN Fail(p, "expected quote") ELSE ReadQuotedFrom(t, p + 1, q, uriMode, <<>>)

----------------------------------------------------------------------------
\* numbers
\* digits := digit (digit | "_" digit)* ; returns end (exclusive), 0 if no digit at p
RECURSIVE DigitsEnd(_, _)
DigitsEnd(t, p) == IF IsDigit(At(t, p)) THEN DigitsEnd(t, p + 1)
                   ELSE IF At(t, p) = 95 /\ IsDigit(At(t, p + 1)) THEN DigitsEnd(t, p + 2)
                   ELSE p
Digits(t, p) == IF IsDigit(At(t, p)) THEN DigitsEnd(t, p + 1) ELSE 0
StripUnderscores(s) == SelectSeq(s, LAMBDA c : c # 95)

\* end of ["-"] digits ["." digits] [(e|E) [+|-] digits], 0 if none
NumeralEnd(t, p) ==
    LET p1 == IF At(t, p) = 45 THEN p + 1 ELSE p
        p2 == Digits(t, p1)
    IN IF p2 = 0 THEN 0
       ELSE LET p3 == IF At(t, p2) = 46 /\ Digits(t, p2 + 1) # 0 THEN Digits(t, p2 + 1) ELSE p2
                pe == IF At(t, p3) \in {101, 69}
                      THEN LET ps == IF At(t, p3 + 1) \in {43, 45} THEN p3 + 2 ELSE p3 + 1
                           IN IF Digits(t, ps) # 0 THEN Digits(t, ps) ELSE p3
                      ELSE p3
            IN pe

IsUnitChar(c) == IsAlpha(c) \/ c \in {37, 95, 47, 36} \/ c > 127     \* % _ / $
RECURSIVE UnitEnd(_, _)
UnitEnd(t, p) == IF IsUnitChar(At(t, p)) THEN UnitEnd(t, p + 1) ELSE p

ReadNumber(t, p) ==
    LET e == NumeralEnd(t, p) IN
    IF e = 0 THEN Fail(p, "bad number")
    ELSE LET u == UnitEnd(t, e) IN
         Ok([k |-> "num", cls |-> "fin", numeral |-> StripUnderscores(SubSeq(t, p, e - 1)),
             unit |-> IF u = e THEN <<>> ELSE <<SubSeq(t, e, u - 1)>>], u)

----------------------------------------------------------------------------
\* date / time / timestamp
D2(t, p) == IF IsDigit(At(t, p)) /\ IsDigit(At(t, p + 1)) THEN (t[p] - 48) * 10 + (t[p + 1] - 48) ELSE -1
D4(t, p) == IF D2(t, p) >= 0 /\ D2(t, p + 2) >= 0 THEN D2(t, p) * 100 + D2(t, p + 2) ELSE -1

LooksLikeDate(t, p) == D4(t, p) >= 0 /\ At(t, p + 4) = 45 /\ D2(t, p + 5) >= 0 /\ At(t, p + 7) = 45 /\ D2(t, p + 8) >= 0
LooksLikeTime(t, p) == D2(t, p) >= 0 /\ At(t, p + 2) = 58 /\ D2(t, p + 3) >= 0 /\ At(t, p + 5) = 58 /\ D2(t, p + 6) >= 0

ReadDate(t, p) ==
    IF ~LooksLikeDate(t, p) THEN Fail(p, "bad date")
    ELSE LET y == D4(t, p)  m == D2(t, p + 5)  d == D2(t, p + 8) IN
         IF ValidDate(y, m, d) THEN Ok([k |-> "date", y |-> y, m |-> m, d |-> d], p + 10)
         ELSE Fail(p, "invalid date")

\* fraction digits -> nanoseconds (1..9 digits)
RECURSIVE FracEnd(_, _)
FracEnd(t, p) == IF IsDigit(At(t, p)) THEN FracEnd(t, p + 1) ELSE p
RECURSIVE FracNanos(_, _, _, _)
FracNanos(t, p, e, scale) == IF p >= e \/ scale = 0 THEN 0
                             ELSE (t[p] - 48) * scale + FracNanos(t, p + 1, e, scale \div 10)
ReadTime(t, p) ==
    IF ~LooksLikeTime(t, p) THEN Fail(p, "bad time")
    ELSE LET h == D2(t, p)  mi == D2(t, p + 3)  s == D2(t, p + 6)
             fe == IF At(t, p + 8) = 46 THEN FracEnd(t, p + 9) ELSE p + 8
             nd == IF At(t, p + 8) = 46 THEN fe - (p + 9) ELSE 0
         IN IF At(t, p + 8) = 46 /\ (nd = 0 \/ nd > 9) THEN Fail(p, "bad fraction")
            ELSE LET ns == IF nd = 0 THEN 0 ELSE FracNanos(t, p + 9, fe, 100000000) IN
                 IF ValidTime(h, mi, s, ns)
                 THEN Ok([k |-> "time", h |-> h, mi |-> mi, s |-> s, ns |-> ns], fe)
                 ELSE Fail(p, "invalid time")

RECURSIVE TzNameEnd(_, _)
TzNameEnd(t, p) == IF IsAlnum(At(t, p)) \/ At(t, p) \in {95, 47, 43, 45} THEN TzNameEnd(t, p + 1) ELSE p
ReadTzName(t, p) == IF ~IsUpper(At(t, p)) THEN Fail(p, "bad zone name")
                    ELSE LET e == TzNameEnd(t, p + 1) IN
                         IF e - p < 2 THEN Fail(p, "bad zone name") ELSE Ok(SubSeq(t, p, e - 1), e)
UTCText == <<85, 84, 67>>

\* dateTime := date "T" time ( "Z" [" UTC"] | "Z " tz | (+|-)hh:mm " " tz )
ReadDateTime(t, p) ==
    LET d == ReadDate(t, p) IN
    IF ~d.ok THEN d
    ELSE IF At(t, d.p) # 84 THEN Fail(d.p, "expected T")
    ELSE LET tm == ReadTime(t, d.p + 1) IN
    IF ~tm.ok THEN tm
    ELSE LET q == tm.p
             mk(off, tz, e) == Ok([k |-> "dt", y |-> d.v.y, m |-> d.v.m, d |-> d.v.d, h |-> tm.v.h,
                                   mi |-> tm.v.mi, s |-> tm.v.s, ns |-> tm.v.ns, off |-> off, tz |-> tz], e)
         IN IF At(t, q) = 90 THEN
               IF At(t, q + 1) = 32 /\ IsUpper(At(t, q + 2)) THEN
                  LET z == ReadTzName(t, q + 2) IN IF ~z.ok THEN z ELSE mk(0, z.v, z.p)
               ELSE mk(0, UTCText, q + 1)
            ELSE IF At(t, q) \in {43, 45} /\ D2(t, q + 1) >= 0 /\ At(t, q + 3) = 58 /\ D2(t, q + 4) >= 0
                    /\ At(t, q + 6) = 32 THEN
               LET sg == IF t[q] = 43 THEN 1 ELSE -1
                   hh == D2(t, q + 1)  mm == D2(t, q + 4)
                   z == ReadTzName(t, q + 7)
               IN IF hh > 23 \/ mm > 59 THEN Fail(q, "bad offset")
                  ELSE IF ~z.ok THEN z ELSE mk(sg * (hh * 3600 + mm * 60), z.v, z.p)
            ELSE Fail(q, "bad zone")

----------------------------------------------------------------------------
\* ref, symbol, coord, xstr, keywords
RECURSIVE IdCharsEnd(_, _)
IdCharsEnd(t, p) == IF IsIdChar(At(t, p)) THEN IdCharsEnd(t, p + 1) ELSE p

ReadRef(t, p) ==
    LET e == IdCharsEnd(t, p + 1) IN
    IF e = p + 1 THEN Fail(p, "empty ref")
    ELSE IF At(t, e) = 32 /\ At(t, e + 1) = 34 THEN
       LET s == ReadQuoted(t, e + 1, 34, FALSE) IN
       IF ~s.ok THEN s ELSE Ok([k |-> "ref", id |-> SubSeq(t, p + 1, e - 1), dis |-> <<s.v>>], s.p)
    ELSE Ok([k |-> "ref", id |-> SubSeq(t, p + 1, e - 1), dis |-> <<>>], e)

ReadSymbol(t, p) ==
    IF ~IsLower(At(t, p + 1)) THEN Fail(p, "bad symbol")
    ELSE LET e == IdCharsEnd(t, p + 1) IN Ok([k |-> "symbol", s |-> SubSeq(t, p + 1, e - 1)], e)

\* decimal of a coord: ["-"] digits ["." digits]
DecEnd(t, p) == LET p1 == IF At(t, p) = 45 THEN p + 1 ELSE p
                    p2 == Digits(t, p1)
                IN IF p2 = 0 THEN 0
                   ELSE IF At(t, p2) = 46 /\ Digits(t, p2 + 1) # 0 THEN Digits(t, p2 + 1) ELSE p2

\* "C(" dec "," dec ")"
ReadCoord(t, p) ==
    LET a == SkipSp(t, p + 2)
        ae == DecEnd(t, a)
    IN IF ae = 0 THEN Fail(a, "bad coord")
       ELSE LET c == SkipSp(t, ae) IN
            IF At(t, c) # 44 THEN Fail(c, "bad coord")
            ELSE LET b == SkipSp(t, c + 1)
                     be == DecEnd(t, b)
                 IN IF be = 0 THEN Fail(b, "bad coord")
                    ELSE LET z == SkipSp(t, be) IN
                         IF At(t, z) # 41 THEN Fail(z, "bad coord")
                         ELSE Ok([k |-> "coord", lat |-> StripUnderscores(SubSeq(t, a, ae - 1)),
                                  lng |-> StripUnderscores(SubSeq(t, b, be - 1))], z + 1)

\* keyword or XStr or Coord starting with an upper-case letter
ReadUpper(t, p) ==
    LET e == IdEnd(t, p)
        w == SubSeq(t, p, e - 1)
    IN IF At(t, e) = 40 THEN
          IF w = <<67>> /\ At(t, e + 1) # 34 THEN ReadCoord(t, p)      \* C("...") is an XStr of type C
          ELSE LET s == ReadQuoted(t, SkipSp(t, e + 1), 34, FALSE) IN
               IF ~s.ok THEN s
               ELSE LET z == SkipSp(t, s.p) IN
                    IF At(t, z) # 41 THEN Fail(z, "bad xstr") ELSE Ok([k |-> "xstr", t |-> w, s |-> s.v], z + 1)
       ELSE CASE w = <<78>> -> Ok(Null, e)
              [] w = <<77>> -> Ok(Marker, e)
              [] w = <<82>> -> Ok(Remove, e)
              [] w = <<78, 65>> -> Ok(NA, e)
              [] w = <<84>> -> Ok(Bool(TRUE), e)
              [] w = <<70>> -> Ok(Bool(FALSE), e)
              [] w = <<78, 97, 78>> -> Ok([k |-> "num", cls |-> "nan", numeral |-> <<>>, unit |-> <<>>], e)
              [] w = <<73, 78, 70>> -> Ok([k |-> "num", cls |-> "pinf", numeral |-> <<>>, unit |-> <<>>], e)
              [] OTHER -> Fail(p, "bad keyword")

----------------------------------------------------------------------------
\* values, collections, grids
RECURSIVE ReadVal(_, _), ReadListItems(_, _, _), ReadTags(_, _, _, _), ReadGrid(_, _, _), ReadCols(_, _, _),
          ReadRows(_, _, _, _, _), ReadCells(_, _, _, _, _)

ReadVal(t, p) ==
    LET c == At(t, p) IN
    CASE c = 34 -> LET s == ReadQuoted(t, p, 34, FALSE) IN IF s.ok THEN Ok(Str(s.v), s.p) ELSE s
      [] c = 96 -> LET s == ReadQuoted(t, p, 96, TRUE) IN IF s.ok THEN Ok(Uri(s.v), s.p) ELSE s
      [] c = 64 -> ReadRef(t, p)
      [] c = 94 -> ReadSymbol(t, p)
      [] c = 91 -> ReadListItems(t, SkipSp(t, p + 1), <<>>)
      [] c = 123 -> LET r == ReadTags(t, SkipSp(t, p + 1), TRUE, <<>>) IN
                    IF ~r.ok THEN r
                    ELSE IF At(t, r.p) # 125 THEN Fail(r.p, "expected }") ELSE Ok(Dict(r.v), r.p + 1)
      [] c = 60 -> IF At(t, p + 1) # 60 THEN Fail(p, "expected <<")
                   ELSE LET q == SkipSp(t, p + 2)
                            n == IF AfterNl(t, q) # 0 THEN AfterNl(t, q) ELSE q
                        IN ReadGrid(t, n, TRUE)
      [] c = 45 -> IF At(t, p + 1) = 73 /\ At(t, p + 2) = 78 /\ At(t, p + 3) = 70 /\ ~IsAlnum(At(t, p + 4))
                   THEN Ok([k |-> "num", cls |-> "ninf", numeral |-> <<>>, unit |-> <<>>], p + 4)
                   ELSE ReadNumber(t, p)
      [] IsDigit(c) -> IF LooksLikeDate(t, p) THEN (IF At(t, p + 10) = 84 THEN ReadDateTime(t, p) ELSE ReadDate(t, p))
                       ELSE IF LooksLikeTime(t, p) THEN ReadTime(t, p)
                       ELSE ReadNumber(t, p)
      [] IsUpper(c) -> ReadUpper(t, p)
      [] OTHER -> Fail(p, "unexpected character")

\* after "[" and spaces:  "]" | val (sp "," sp val)* [sp ","] sp "]"
ReadListItems(t, p, acc) ==
    IF At(t, p) = 93 THEN Ok(List(acc), p + 1)
    ELSE LET r == ReadVal(t, p) IN
         IF ~r.ok THEN r
         ELSE LET q == SkipSp(t, r.p) IN
              IF At(t, q) = 93 THEN Ok(List(Append(acc, r.v)), q + 1)
              ELSE IF At(t, q) = 44 THEN ReadListItems(t, SkipSp(t, q + 1), Append(acc, r.v))
              ELSE Fail(q, "expected , or ]")

\* tags := tag (sep tag)*  where sep = spaces, or (in a dict) a comma with optional spaces
\* returns the tags (sorted, later duplicates overwrite) and the position after the last tag
ReadTags(t, p, commaOk, acc) ==
    LET e == TagNameEnd(t, p) IN
    IF e = 0 THEN Ok(acc, p)
    ELSE LET name == SubSeq(t, p, e - 1)
             r == IF At(t, e) = 58 THEN ReadVal(t, e + 1) ELSE Ok(Marker, e)
         IN IF ~r.ok THEN r
            ELSE LET acc2 == TagsPut(acc, name, r.v)
                     q == SkipSp(t, r.p)
                     q2 == IF commaOk /\ At(t, q) = 44 THEN SkipSp(t, q + 1) ELSE q
                 IN IF q2 > r.p /\ TagNameEnd(t, q2) # 0 THEN ReadTags(t, q2, commaOk, acc2)
                    ELSE Ok(acc2, r.p)

\* grid := "ver:" str [sp tags] nl cols nl row*   (nested: terminated by ">>")
ReadGrid(t, p, nested) ==
    IF ~(At(t, p) = 118 /\ At(t, p + 1) = 101 /\ At(t, p + 2) = 114 /\ At(t, p + 3) = 58) THEN Fail(p, "expected ver:")
    ELSE LET ver == ReadQuoted(t, p + 4, 34, FALSE) IN
    IF ~ver.ok THEN ver
    ELSE LET m == IF SkipSp(t, ver.p) = ver.p THEN Ok(<<>>, ver.p) ELSE ReadTags(t, SkipSp(t, ver.p), FALSE, <<>>) IN
    IF ~m.ok THEN m
    ELSE LET n1 == AfterNl(t, SkipSp(t, m.p)) IN
    IF n1 = 0 THEN Fail(m.p, "expected newline after ver line")
    ELSE LET cs == ReadCols(t, SkipSp(t, n1), <<>>) IN
    IF ~cs.ok THEN cs
    ELSE LET n2 == AfterNl(t, SkipSp(t, cs.p)) IN
    IF n2 = 0 THEN Fail(cs.p, "expected newline after columns")
    ELSE LET rs == ReadRows(t, n2, cs.v, nested, <<>>) IN
    IF ~rs.ok THEN rs
    ELSE Ok(Grid(ver.v, m.v, cs.v, rs.v), rs.p)

ReadCols(t, p, acc) ==
    LET e == TagNameEnd(t, p) IN
    IF e = 0 THEN Fail(p, "expected column name")
    ELSE LET m == IF SkipSp(t, e) = e THEN Ok(<<>>, e) ELSE ReadTags(t, SkipSp(t, e), FALSE, <<>>) IN
         IF ~m.ok THEN m
         ELSE LET acc2 == Append(acc, Col(SubSeq(t, p, e - 1), m.v))
                  q == SkipSp(t, IF m.v = <<>> THEN e ELSE m.p)
              IN IF At(t, q) = 44 THEN ReadCols(t, SkipSp(t, q + 1), acc2) ELSE Ok(acc2, q)

\* rows until end of text / blank line (top level) or ">>" (nested)
ReadRows(t, p, cols, nested, acc) ==
    IF nested /\ At(t, p) = 62 /\ At(t, p + 1) = 62 THEN Ok(acc, p + 2)
    ELSE IF ~nested /\ p > Len(t) THEN Ok(acc, p)
    ELSE IF ~nested /\ AfterNl(t, p) # 0 /\ AfterNl(t, p) > Len(t) THEN Ok(acc, AfterNl(t, p))
    ELSE IF nested /\ AfterNl(t, p) # 0 /\ At(t, AfterNl(t, p)) = 62 /\ At(t, AfterNl(t, p) + 1) = 62
         THEN Ok(acc, AfterNl(t, p) + 2)
    ELSE IF p > Len(t) THEN Fail(p, "unterminated nested grid")
    ELSE LET r == ReadCells(t, p, cols, 1, <<>>) IN
         IF ~r.ok THEN r ELSE ReadRows(t, r.p, cols, nested, Append(acc, r.v))

\* cell := [val] ; exactly one cell per column, separated by commas, terminated by nl
ReadCells(t, p, cols, i, acc) ==
    IF i > Len(cols) THEN Fail(p, "more cells than columns")
    ELSE LET q == SkipSp(t, p)
             empty == At(t, q) = 44 \/ AfterNl(t, q) # 0 \/ q > Len(t)
             r == IF empty THEN Ok(Null, q) ELSE ReadVal(t, q)
         IN IF ~r.ok THEN r
            ELSE LET acc2 == IF empty THEN acc ELSE TagsPut(acc, cols[i].name, r.v)
                     z == SkipSp(t, r.p)
                 IN IF At(t, z) = 44 THEN ReadCells(t, z + 1, cols, i + 1, acc2)
                    ELSE IF AfterNl(t, z) # 0 THEN
                       (IF i = Len(cols) THEN Ok(acc2, AfterNl(t, z)) ELSE Fail(z, "fewer cells than columns"))
                    ELSE Fail(z, "expected , or newline")

\* A whole document: a grid if it starts with "ver:", else a single value; all text consumed.
ZincRead(t) ==
    IF At(t, 1) = 118 /\ At(t, 2) = 101 /\ At(t, 3) = 114 /\ At(t, 4) = 58 THEN
       LET g == ReadGrid(t, 1, FALSE) IN
       IF ~g.ok THEN g ELSE IF g.p <= Len(t) THEN Fail(g.p, "trailing text") ELSE g
    ELSE LET r == ReadVal(t, 1) IN
         IF ~r.ok THEN r ELSE IF r.p <= Len(t) THEN Fail(r.p, "trailing text") ELSE r

----------------------------------------------------------------------------
\* Denotation: read value rv (numerals, civil timestamps) denotes abstract value v.
\* KnownUnit is not needed here: unit texts are compared literally.
NumDenotes(rv, v) ==
    /\ rv.unit = v.unit
    /\ IF rv.cls = "fin" THEN RoundsToF64(rv.numeral, v.bits) ELSE F64Class(v.bits) = rv.cls

DtDenotes(rv, v) ==
    LET local == rv.h * 3600 + rv.mi * 60 + rv.s          \* local second of day
        u == local - rv.off                                \* may leave [0, 86400)
        dshift == IF u < 0 THEN -1 ELSE IF u >= 86400 THEN 1 ELSE 0
    IN /\ v.day = DaysFromCivil(rv.y, rv.m, rv.d) + dshift
       /\ v.sod = u - dshift * 86400
       /\ v.ns = rv.ns
       /\ v.off = rv.off
       /\ v.tz = rv.tz

RECURSIVE Denotes(_, _)
DenotesTags(a, b) == /\ Len(a) = Len(b)
                     /\ \A i \in 1..Len(a) : a[i][1] = b[i][1] /\ Denotes(a[i][2], b[i][2])
Denotes(rv, v) ==
    /\ rv.k = v.k
    /\ CASE rv.k = "num" -> NumDenotes(rv, v)
         [] rv.k = "coord" -> RoundsToF64(rv.lat, v.lat) /\ RoundsToF64(rv.lng, v.lng)
         [] rv.k = "dt" -> DtDenotes(rv, v)
         [] rv.k = "list" -> /\ Len(rv.items) = Len(v.items)
                             /\ \A i \in 1..Len(v.items) : Denotes(rv.items[i], v.items[i])
         [] rv.k = "dict" -> DenotesTags(rv.tags, v.tags)
         [] rv.k = "grid" ->
               /\ rv.ver = v.ver
               /\ DenotesTags(rv.meta, v.meta)
               /\ Len(rv.cols) = Len(v.cols)
               /\ \A i \in 1..Len(v.cols) : /\ rv.cols[i].name = v.cols[i].name
                                            /\ DenotesTags(rv.cols[i].meta, v.cols[i].meta)
               /\ Len(rv.rows) = Len(v.rows)
               /\ \A i \in 1..Len(v.rows) : DenotesTags(rv.rows[i], v.rows[i])
         [] OTHER -> Same(rv, v)

\* the text contains one of the optional Uri escapes whose meaning the published grammar leaves open
\* (does `\:` denote ":" or the two characters?): such texts are neither written by the spec writer nor judged
HasOptUriEsc(t) == \E i \in 1..(Len(t) - 1) : t[i] = 92 /\ t[i + 1] \in {58, 47, 63, 35, 91, 93, 64, 38, 61, 59}
\* a \u escape naming a UTF-16 surrogate: whether a pair of them denotes one astral code point (as this
\* specification reads it, following the reference implementations' UTF-16 strings) is left open by the grammar
HasSurrogateEsc(t) == \E i \in 1..(Len(t) - 5) : t[i] = 92 /\ t[i + 1] = 117 /\ Hex4(t, i + 2) >= 55296 /\ Hex4(t, i + 2) <= 57343
DebatableEsc(t) == HasOptUriEsc(t) \/ HasSurrogateEsc(t)

\* the text t is a sentence of the grammar that denotes v
ZincDenotes(t, v) == LET r == ZincRead(t) IN r.ok /\ Denotes(r.v, v)
\* diagnostic
ZincWhyNot(t, v) == LET r == ZincRead(t) IN
                    IF ~r.ok THEN <<"not a sentence", r.why, r.p>> ELSE <<"denotes another value">>

----------------------------------------------------------------------------
(***************************************************************************)
(* Writer.  A style record selects among the spellings the grammar allows: *)
(*   sp    : text written after every "," of lists / rows / columns         *)
(*           (<<>> or spaces / tabs)                                        *)
(*   nl    : <<10>> or <<13, 10>>                                           *)
(*   esc   : "short" | "uni" | "UNI" | "raw" | "alt"   string/uri escapes   *)
(*   num   : "plain" | "dot0" | "e0" | "E+0" | "shift" | "us" | "alt"       *)
(*   trail : trailing comma in non-empty lists                              *)
(*   dsep  : dict tag separator, <<32>> or <<44>> or <<44, 32>>             *)
(*   gnl   : newline after "<<" of a nested grid                            *)
(*   endnl : extra blank line closing a top-level grid                      *)
(* "alt" alternates between the options at successive choice points.        *)
(* The writer never uses a form whose legality is debatable (optional uri   *)
(* escapes, \u surrogate pairs, bare CR, "+" before a mantissa).            *)
(***************************************************************************)
HexDigit(n, upper) == IF n < 10 THEN 48 + n ELSE (IF upper THEN 55 ELSE 87) + n
UEsc(c, upper) == <<92, 117, HexDigit(c \div 4096, upper), HexDigit((c \div 256) % 16, upper),
                    HexDigit((c \div 16) % 16, upper), HexDigit(c % 16, upper)>>

EscModes == <<"short", "uni", "UNI", "raw">>
\* spelling of one character of a Str (q = 34) or Uri (q = 96)
EscChar(c, q, mode, i) ==
    LET md == IF mode = "alt" THEN EscModes[(i % 4) + 1] ELSE mode
        short == IF q = 34 THEN
                    CASE c = 8 -> <<92, 98>> [] c = 12 -> <<92, 102>> [] c = 10 -> <<92, 110>>
                      [] c = 13 -> <<92, 114>> [] c = 9 -> <<92, 116>> [] c = 34 -> <<92, 34>>
                      [] c = 92 -> <<92, 92>> [] c = 36 -> <<92, 36>> [] OTHER -> <<>>
                 ELSE CASE c = 96 -> <<92, 96>> [] c = 92 -> <<92, 92>> [] OTHER -> <<>>
        mustEscape == c < 32 \/ c = q \/ c = 92 \/ (q = 34 /\ c = 36)
    IN IF c > 65535 THEN <<c>>                                   \* astral: always raw
       ELSE IF md \in {"uni", "UNI"} /\ (mustEscape \/ c > 126) THEN UEsc(c, md = "UNI")
       ELSE IF md = "raw" /\ ~mustEscape THEN <<c>>
       ELSE IF short # <<>> /\ (mustEscape \/ md = "short") /\ (mustEscape \/ c \in {8, 12, 10, 13, 9}) THEN short
       ELSE IF mustEscape THEN UEsc(c, FALSE)
       ELSE <<c>>

RECURSIVE WriteCharsFrom(_, _, _, _)
WriteCharsFrom(s, q, mode, i) == IF i > Len(s) THEN <<>> ELSE EscChar(s[i], q, mode, i) \o WriteCharsFrom(s, q, mode, i + 1)
WriteQuoted(s, q, mode) == <<q>> \o WriteCharsFrom(s, q, mode, 1) \o <<q>>

\* number spellings of a plain numeral  ["-"] digits ["." digits]  (no exponent)
IndexOf(s, c) == IF \E i \in 1..Len(s) : s[i] = c THEN CHOOSE i \in 1..Len(s) : s[i] = c /\ \A j \in 1..(i - 1) : s[j] # c ELSE 0
IsPlain(n) == IndexOf(n, 101) = 0 /\ IndexOf(n, 69) = 0
NumModes == <<"plain", "dot0", "e0", "E+0", "shift", "us">>
SpellNumeral(n, mode, i) ==
    LET md == IF mode = "alt" THEN NumModes[(i % 6) + 1] ELSE mode
        dot == IndexOf(n, 46)
    IN IF ~IsPlain(n) THEN n
       ELSE CASE md = "plain" -> n
              [] md = "dot0" -> IF dot = 0 THEN n \o <<46, 48>> ELSE n
              [] md = "e0" -> n \o <<101, 48>>
              [] md = "E+0" -> n \o <<69, 43, 48>>
              [] md = "shift" -> IF dot = 0 THEN n \o <<101, 45, 48>>
                                 ELSE SubSeq(n, 1, dot - 1) \o SubSeq(n, dot + 1, Len(n)) \o <<101, 45>> \o IntToCps(Len(n) - dot)
              [] md = "us" -> LET st == IF n[1] = 45 THEN 2 ELSE 1 IN
                              IF IsDigit(At(n, st)) /\ IsDigit(At(n, st + 1))
                              THEN SubSeq(n, 1, st) \o <<95>> \o SubSeq(n, st + 1, Len(n)) ELSE n
              [] OTHER -> n

Pad2(n) == <<48 + (n \div 10), 48 + (n % 10)>>
Pad4(n) == Pad2(n \div 100) \o Pad2(n % 100)
WriteDate(y, m, d) == Pad4(y) \o <<45>> \o Pad2(m) \o <<45>> \o Pad2(d)
\* fraction: shortest of 3 / 6 / 9 digits that is exact (as RFC 3339 writers do), none when 0
Pad3(n) == <<48 + (n \div 100), 48 + ((n \div 10) % 10), 48 + (n % 10)>>
WriteFrac(ns) == IF ns = 0 THEN <<>>
                 ELSE IF ns % 1000000 = 0 THEN <<46>> \o Pad3(ns \div 1000000)
                 ELSE IF ns % 1000 = 0 THEN <<46>> \o Pad3(ns \div 1000000) \o Pad3((ns \div 1000) % 1000)
                 ELSE <<46>> \o Pad3(ns \div 1000000) \o Pad3((ns \div 1000) % 1000) \o Pad3(ns % 1000)
WriteTime(h, mi, s, ns) == Pad2(h) \o <<58>> \o Pad2(mi) \o <<58>> \o Pad2(s) \o WriteFrac(ns)

\* civil date from day number (inverse of DaysFromCivil), Hinnant's civil_from_days
CivilFromDays(z0) ==
    LET z == z0 + 10957 + 719468
        era == z \div 146097                 \* TLA+ \div is floor division: no adjustment for negative day numbers
        doe == z - era * 146097
        yoe == (doe - doe \div 1460 + doe \div 36524 - doe \div 146096) \div 365
        y == yoe + era * 400
        doy == doe - (365 * yoe + yoe \div 4 - yoe \div 100)
        mp == (5 * doy + 2) \div 153
        d == doy - (153 * mp + 2) \div 5 + 1
        m == IF mp < 10 THEN mp + 3 ELSE mp - 9
    IN [y |-> IF m <= 2 THEN y + 1 ELSE y, m |-> m, d |-> d]

WriteDateTime(v) ==
    LET l == v.sod + v.off
        dshift == IF l < 0 THEN -1 ELSE IF l >= 86400 THEN 1 ELSE 0
        ls == l - dshift * 86400
        cd == CivilFromDays(v.day + dshift)
        ao == IF v.off < 0 THEN -v.off ELSE v.off
        offTxt == IF v.off = 0 THEN <<90>>
                  ELSE <<IF v.off < 0 THEN 45 ELSE 43>> \o Pad2(ao \div 3600) \o <<58>> \o Pad2((ao \div 60) % 60)
    IN WriteDate(cd.y, cd.m, cd.d) \o <<84>> \o WriteTime(ls \div 3600, (ls \div 60) % 60, ls % 60, v.ns) \o offTxt
       \o (IF v.tz = UTCText /\ v.off = 0 THEN <<>> ELSE <<32>> \o v.tz)

RECURSIVE ZW(_, _, _), ZWItems(_, _, _, _), ZWTags(_, _, _, _), ZWGrid(_, _, _, _), ZWTagsFrom(_, _, _, _, _),
          ZWCols(_, _, _, _), ZWCells(_, _, _, _, _), ZWRows(_, _, _, _, _)
NumeralOf(v) == IF "numeral" \in DOMAIN v THEN v.numeral ELSE ExactOfF64(v.bits)
ZW(v, st, i) ==
    CASE v.k = "null" -> <<78>>
      [] v.k = "marker" -> <<77>>
      [] v.k = "remove" -> <<82>>
      [] v.k = "na" -> <<78, 65>>
      [] v.k = "bool" -> IF v.b THEN <<84>> ELSE <<70>>
      [] v.k = "num" -> LET c == F64Class(v.bits) IN
                        IF c = "nan" THEN <<78, 97, 78>> ELSE IF c = "pinf" THEN <<73, 78, 70>>
                        ELSE IF c = "ninf" THEN <<45, 73, 78, 70>>
                        ELSE SpellNumeral(NumeralOf(v), st.num, i) \o (IF v.unit = <<>> THEN <<>> ELSE v.unit[1])
      [] v.k = "str" -> WriteQuoted(v.s, 34, st.esc)
      [] v.k = "uri" -> WriteQuoted(v.s, 96, st.esc)
      [] v.k = "symbol" -> <<94>> \o v.s
      [] v.k = "ref" -> <<64>> \o v.id \o (IF v.dis = <<>> THEN <<>> ELSE <<32>> \o WriteQuoted(v.dis[1], 34, st.esc))
      [] v.k = "xstr" -> v.t \o <<40>> \o WriteQuoted(v.s, 34, st.esc) \o <<41>>
      [] v.k = "date" -> WriteDate(v.y, v.m, v.d)
      [] v.k = "time" -> WriteTime(v.h, v.mi, v.s, v.ns)
      [] v.k = "dt" -> WriteDateTime(v)
      [] v.k = "coord" -> <<67, 40>> \o ExactOfF64(v.lat) \o <<44>> \o ExactOfF64(v.lng) \o <<41>>
      [] v.k = "list" -> <<91>> \o ZWItems(v.items, st, 1, i) \o (IF st.trail /\ v.items # <<>> THEN <<44>> ELSE <<>>) \o <<93>>
      [] v.k = "dict" -> <<123>> \o ZWTags(v.tags, st.dsep, st, i) \o <<125>>
      [] v.k = "grid" -> <<60, 60>> \o (IF st.gnl THEN st.nl ELSE <<>>) \o ZWGrid(v, st, TRUE, i) \o <<62, 62>>

ZWItems(items, st, j, i) ==
    IF j > Len(items) THEN <<>>
    ELSE ZW(items[j], st, i + j) \o (IF j < Len(items) THEN <<44>> \o st.sp ELSE <<>>) \o ZWItems(items, st, j + 1, i)

ZWTagsFrom(tags, sep, st, j, i) ==
    IF j > Len(tags) THEN <<>>
    ELSE tags[j][1] \o (IF tags[j][2].k = "marker" THEN <<>> ELSE <<58>> \o ZW(tags[j][2], st, i + j))
         \o (IF j < Len(tags) THEN sep ELSE <<>>) \o ZWTagsFrom(tags, sep, st, j + 1, i)
ZWTags(tags, sep, st, i) == ZWTagsFrom(tags, sep, st, 1, i)

ZWCols(cols, st, j, i) ==
    IF j > Len(cols) THEN <<>>
    ELSE cols[j].name \o (IF cols[j].meta = <<>> THEN <<>> ELSE <<32>> \o ZWTags(cols[j].meta, <<32>>, st, i))
         \o (IF j < Len(cols) THEN <<44>> \o st.sp ELSE <<>>) \o ZWCols(cols, st, j + 1, i)
ZWCells(row, cols, st, j, i) ==
    IF j > Len(cols) THEN <<>>
    ELSE (IF TagsHas(row, cols[j].name) THEN ZW(TagsGet(row, cols[j].name), st, i + j) ELSE <<>>)
         \o (IF j < Len(cols) THEN <<44>> \o st.sp ELSE <<>>) \o ZWCells(row, cols, st, j + 1, i)
ZWRows(rows, cols, st, r, i) ==
    IF r > Len(rows) THEN <<>>
    ELSE ZWCells(rows[r], cols, st, 1, i + r) \o st.nl \o ZWRows(rows, cols, st, r + 1, i)
ZWGrid(g, st, nested, i) ==
    <<118, 101, 114, 58>> \o WriteQuoted(g.ver, 34, "short")
    \o (IF g.meta = <<>> THEN <<>> ELSE <<32>> \o ZWTags(g.meta, <<32>>, st, i)) \o st.nl
    \o ZWCols(g.cols, st, 1, i) \o st.nl
    \o ZWRows(g.rows, g.cols, st, 1, i)
    \o (IF ~nested /\ st.endnl THEN st.nl ELSE <<>>)

ZincWrite(v, st) == IF v.k = "grid" THEN ZWGrid(v, st, FALSE, 0) ELSE ZW(v, st, 0)

PlainStyle == [sp |-> <<>>, nl |-> <<10>>, esc |-> "short", num |-> "plain", trail |-> FALSE,
               dsep |-> <<32>>, gnl |-> TRUE, endnl |-> FALSE]
ZincCanon(v) == ZincWrite(v, PlainStyle)
=============================================================================

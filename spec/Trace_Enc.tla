------------------------------ MODULE Trace_Enc ------------------------------
(***************************************************************************)
(* C10: encoding any constructible value to Zinc, Hayson or display text    *)
(* returns text or an error - never a panic (observed by the harness with   *)
(* catch_unwind and logged).                                                *)
(*   enc.all  {v, results: [{api, outcome, msg}]}                           *)
(*   enc.nest {form, n, results}   a value nested n deep (n <= 64)          *)
(*   enc.zone {zone, results}      DateTimes in one zone of the tz database  *)
(*   enc.long {holder, ch, pad, n, results}  pad ASCII characters then n     *)
(*        multi-byte ones, in a text-carrying holder, bare and under each    *)
(*        display tag                                                        *)
(***************************************************************************)
EXTENDS HsCore, TraceBase

VARIABLES l, nbad

RECURSIVE CheckResults(_, _, _)
CheckResults(what, rs, i) ==
    IF i > Len(rs) THEN <<>>
    ELSE Need(rs[i].outcome \in {"ok", "err"}, "C10", <<what, rs[i].api, rs[i].outcome, rs[i].msg>>) \o CheckResults(what, rs, i + 1)

Check(e) == CASE e.op = "enc.all" -> CheckResults(<<"encoder on a constructible value", e.v.k>>, e.results, 1)
              [] e.op = "enc.nest" -> CheckResults(<<"encoder on a nested value", e.form, e.n>>, e.results, 1)
              [] e.op = "enc.zone" -> CheckResults(<<"encoder on a DateTime in zone", e.zone>>, e.results, 1)
              [] e.op = "enc.long" -> CheckResults(<<"encoder on a long multi-byte text", e.holder, e.pad, e.n>>, e.results, 1)
              [] OTHER -> <<<<"SPEC", <<"unknown op", e.op>>>>>>

Init == l = 1 /\ nbad = 0
Next == \/ /\ l <= Len(Rec)
           /\ LET r == Check(Rec[l]) IN Report(Rec[l].i, r, 1) /\ nbad' = nbad + Len(r)
           /\ l' = l + 1
        \/ /\ l = Len(Rec) + 1
           /\ PrintT("CONSUMED " \o ToString(Len(Rec)) \o " " \o ToString(nbad))
           /\ l' = l + 1 /\ nbad' = nbad
Spec == Init /\ [][Next]_<<l, nbad>>
=============================================================================

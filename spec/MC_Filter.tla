----------------------------- MODULE MC_Filter -----------------------------
(***************************************************************************)
(* Small-scope universe for the filter language:                            *)
(*   Mode "parse": filter trees with every term kind and literal kind, and  *)
(*                 their spellings; invariant: every spelling parses to the *)
(*                 tree (FParse / FPrint are mutually inverse) - C08        *)
(*   Mode "eval" : (filter, record) pairs; the specification's truth value  *)
(*                 is computed in every state (Eval is total) - C07         *)
(*   Mode "grid" : (filter, 3 rows) - C07 grid filtering                    *)
(*   Mode "weq"  : `*==` over small ref databases with chains and cycles    *)
(***************************************************************************)
EXTENDS Filter, TLC, Json

CONSTANTS Mode, Big
VARIABLES x
vars == <<x>>

T(s) == CodePoints(s)
N(s, u) == [k |-> "num", bits |-> F64OfNumeral(T(s)), unit |-> u, numeral |-> T(s)]
a == T("a")  b == T("b")  c == T("c")
One == N("1", <<>>)
Two == N("2", <<>>)
OneM == N("1", <<T("m")>>)
OneS == N("1", <<T("s")>>)
R1 == Ref(T("r1"), <<>>)

Paths == {<<a>>, <<b>>, <<a, b>>, <<a, b, c>>, <<c, a, b, c>>}
Ops == {"==", "!=", "<", "<=", ">", ">="}
Lits == {One, Two, OneM, OneS, Str(T("x")), Bool(TRUE), Date(2021, 1, 1), Time(12, 0, 0, 0), R1, Uri(T("u")), Symbol(T("s"))}
FChars == {97, 32, 34, 92, 36, 96, 39, 0, 1, 8, 9, 10, 12, 13, 27, 31, 127, 173, 233, 769, 8203, 8364, 65279, 128512}
MoreLits == {N("-1.5", <<>>), N("1000000000000000000000", <<>>), N("0.001", <<T("kWh")>>), N("2.5e10", <<>>),
             Str(<<34>>), Str(<<92>>), Str(<<36>>), Str(<<10>>), Str(<<233>>), Str(<<128512>>), Str(<<>>), Str(T("a and b")),
             Bool(FALSE), Date(2020, 2, 29), Time(23, 59, 59, 123000000), Time(1, 2, 3, 123456789), Time(12, 30, 0, 123400000), Time(0, 0, 0, 1),
             DateTime(DaysFromCivil(2021, 1, 15), 43200, 0, 0, T("UTC")),
             DateTime(DaysFromCivil(2021, 1, 15), 43200, 500000000, -18000, T("New_York")),
             DateTime(DaysFromCivil(2021, 1, 15), 43200, 0, 0, T("London")),
             Ref(T("a-b:c.d~e_1"), <<>>), Ref(T("r"), <<T("dis name")>>), Ref(T("r"), <<<<34>>>>), Uri(T("http://x/y?z=1")), Uri(<<96>>),
             Symbol(T("lib:ph")), Symbol(T("a-b"))}
            \* one character of every class a string writer or reader may treat specially: C0 controls with and without a short
            \* escape, DEL, soft hyphen, combining mark, zero-width space, BOM, the quote characters, BMP and astral letters
            \cup {Str(<<ch>>) : ch \in FChars} \cup {Str(<<97, ch, 98>>) : ch \in {1, 127, 769}}
            \cup {Uri(<<ch>>) : ch \in FChars \ {0, 1, 8, 9, 10, 12, 13, 27, 31}}
            \cup {Ref(T("r"), <<<<ch>>>>) : ch \in {1, 10, 34, 92, 36, 127, 769, 8364}}

Has(p) == [t |-> "has", path |-> p]
Missing(p) == [t |-> "missing", path |-> p]
Cmp(p, op, v) == [t |-> "cmp", path |-> p, op |-> op, val |-> v]
Parens(f) == [t |-> "parens", f |-> f]
F1(t1) == [ors |-> <<<<t1>>>>]
FAnd(t1, t2) == [ors |-> <<<<t1, t2>>>>]
FOr(t1, t2) == [ors |-> <<<<t1>>, <<t2>>>>]

CmpTerms == {Cmp(p, op, v) : p \in Paths, op \in Ops, v \in Lits}
BaseTerms == {Has(p) : p \in Paths} \cup {Missing(p) : p \in Paths} \cup CmpTerms
Atoms == {Has(<<a>>), Has(<<b>>), Missing(<<c>>), Cmp(<<a>>, "==", One), Cmp(<<b>>, "<", Two)}
OtherTerms == {[t |-> "isa", sym |-> T("site")], [t |-> "isa", sym |-> T("lib:ph")],
               [t |-> "rel", rel |-> T("inputs"), term |-> <<>>, ref |-> <<>>],
               [t |-> "rel", rel |-> T("inputs"), term |-> <<T("air")>>, ref |-> <<>>],
               [t |-> "rel", rel |-> T("inputs"), term |-> <<>>, ref |-> <<R1>>],
               [t |-> "rel", rel |-> T("containedBy"), term |-> <<T("hot-water")>>, ref |-> <<R1>>],
               [t |-> "weq", path |-> <<a>>, ref |-> R1], [t |-> "weq", path |-> <<a, b>>, ref |-> Ref(T("x"), <<T("d")>>)]}

\* boolean shapes over atoms: precedence and grouping
Shapes ==
    {F1(t1) : t1 \in Atoms} \cup {FAnd(t1, t2) : t1, t2 \in Atoms} \cup {FOr(t1, t2) : t1, t2 \in Atoms}
    \cup {[ors |-> <<<<t1>>, <<t2, t3>>>>] : t1, t2, t3 \in {Has(<<a>>), Has(<<b>>), Missing(<<c>>)}}          \* a or b and c
    \cup {[ors |-> <<<<t1, t2>>, <<t3>>>>] : t1, t2, t3 \in {Has(<<a>>), Has(<<b>>), Missing(<<c>>)}}          \* a and b or c
    \cup {[ors |-> <<<<Parens(FOr(t1, t2)), t3>>>>] : t1, t2, t3 \in {Has(<<a>>), Has(<<b>>), Missing(<<c>>)}} \* (a or b) and c
    \cup {[ors |-> <<<<t3, Parens(FOr(t1, t2))>>>>] : t1, t2, t3 \in {Has(<<a>>), Has(<<b>>), Missing(<<c>>)}}
    \cup {F1(Parens(F1(Parens(FAnd(t1, t2))))) : t1, t2 \in {Has(<<a>>), Cmp(<<b>>, ">=", One)}}
    \cup {[ors |-> <<<<t1, t2, t3>>>>] : t1, t2, t3 \in {Has(<<a>>), Missing(<<b>>)}}
    \cup {[ors |-> <<<<t1>>, <<t2>>, <<t3>>>>] : t1, t2, t3 \in {Has(<<a>>), Missing(<<b>>)}}

ParseFilters ==
    {F1(t1) : t1 \in BaseTerms \cup OtherTerms} \cup {F1(Cmp(<<a>>, op, v)) : op \in {"==", "<"}, v \in MoreLits} \cup Shapes
    \cup {FAnd(t1, t2) : t1 \in OtherTerms, t2 \in {Has(<<a>>), Cmp(<<a, b>>, "!=", Str(T("x")))}}
    \cup {FOr(t2, t1) : t1 \in OtherTerms, t2 \in {Has(<<a>>), Cmp(<<a, b>>, "!=", Str(T("x")))}}
    \cup {FAnd(t1, t2) : t1 \in {Has(<<a, b>>), Missing(<<a, b>>), Cmp(<<a, b>>, "==", One)}, t2 \in {Has(<<c>>), Missing(<<c>>)}}   \* a path ends at the first token that is not ->

\* records: the value at the end of the path ranges over presence / Null / kinds
Vals == {One, Two, OneM, OneS, Str(T("x")), Str(T("y")), Bool(TRUE), Bool(FALSE), Marker, Null, Date(2021, 1, 1), Date(2020, 1, 1),
         Time(12, 0, 0, 0), R1, Ref(T("r1"), <<T("dis")>>), Uri(T("u")), Symbol(T("s")),
         List(<<One, Str(T("x"))>>), List(<<>>), List(<<Two, List(<<One>>)>>), Dict(<<<<b, One>>>>), Dict(<<>>)}
RECURSIVE Nest(_, _)
Nest(path, v) == IF Len(path) = 1 THEN <<<<path[1], v>>>> ELSE <<<<path[1], Dict(Nest(Tail(path), v))>>>>
TermPairs == {<<F1(t1), Nest(t1.path, v)>> : t1 \in BaseTerms, v \in Vals}
             \cup {<<F1(t1), <<>>>> : t1 \in BaseTerms}
             \cup {<<F1(t1), <<<<T("zz"), Marker>>>>>> : t1 \in BaseTerms}
             \cup {<<F1(t1), Nest(<<t1.path[1]>>, v)>> : t1 \in {tt \in BaseTerms : Len(tt.path) >= 2}, v \in {One, R1, Dict(<<>>), Null}}
Presence == {r \in SUBSET {a, b, c} : TRUE}
RECURSIVE SetToTags(_)
SetToTags(s) == IF s = {} THEN <<>> ELSE LET n == CHOOSE m \in s : \A o \in s : TextCmp(m, o) <= 0 IN <<<<n, One>>>> \o SetToTags(s \ {n})
ShapePairs == {<<f, SetToTags(r)>> : f \in Shapes, r \in Presence}
EvalPairs == TermPairs \cup ShapePairs

Rows == {<<>>, <<<<a, One>>>>, <<<<a, Two>>, <<b, One>>>>, <<<<b, Marker>>>>}
GridFilters == {F1(Has(<<a>>)), F1(Missing(<<a>>)), F1(Cmp(<<a>>, "==", One)), FOr(Has(<<b>>), Cmp(<<a>>, ">", One)), F1(Has(<<c>>))}
GridPairs == {<<f, <<r1, r2, r3>>>> : f \in GridFilters, r1, r2, r3 \in Rows}

\* `*==` databases: records with id and a ref tag `a` (chains, cycles, dangling)
Rec(id, target) == <<<<a, Ref(T(target), <<>>)>>, <<T("id"), Ref(T(id), <<>>)>>>>
\* every database over the ids r2 r3 r4 (and r5 when Big): each id has no record, a record without the tag, a record
\* whose tag is no Ref, or a record pointing at the target r1, at any id (itself included) or at a dangling r9 -
\* so every functional graph on <= 3 (4) nodes: chains, rings, tails running into rings, self loops
WIds == IF Big THEN <<"r2", "r3", "r4", "r5">> ELSE <<"r2", "r3", "r4">>
WChoices == {"absent", "notag", "nonref", "r1", "r9"} \cup {WIds[i] : i \in 1..Len(WIds)}
WRec(id, ch) == CASE ch = "absent" -> <<>>
                  [] ch = "notag" -> << <<<<T("id"), Ref(T(id), <<>>)>>>> >>
                  [] ch = "nonref" -> << <<<<a, One>>, <<T("id"), Ref(T(id), <<>>)>>>> >>
                  [] OTHER -> << Rec(id, ch) >>
RECURSIVE WDb(_, _)
WDb(f, i) == IF i > Len(WIds) THEN <<>> ELSE WRec(WIds[i], f[i]) \o WDb(f, i + 1)
Dbs == {WDb(f, 1) : f \in [1..Len(WIds) -> WChoices]}
\* the evaluated record: pointing at the target, at the first database record, no Ref, no tag - and the same with an `id` of its
\* own that IS the target (the chain leads back to the record the term is evaluated on) or is another ref
WeqStarts == {<<<<a, Ref(T("r1"), <<>>)>>>>, <<<<a, Ref(T("r2"), <<>>)>>>>, <<<<a, One>>>>, <<>>,
              <<<<a, Ref(T("r2"), <<>>)>>, <<T("id"), Ref(T("r1"), <<>>)>>>>, <<<<a, Ref(T("r1"), <<>>)>>, <<T("id"), Ref(T("r1"), <<>>)>>>>,
              <<<<a, Ref(T("r2"), <<>>)>>, <<T("id"), Ref(T("r2"), <<>>)>>>>, <<<<a, Ref(T("r3"), <<>>)>>, <<T("id"), Ref(T("r9"), <<>>)>>>>}
WeqPairs == {<<start, db>> : start \in WeqStarts, db \in Dbs}

Init == x \in (CASE Mode = "parse" -> ParseFilters [] Mode = "eval" -> EvalPairs [] Mode = "grid" -> GridPairs [] Mode = "weq" -> WeqPairs)
Next == UNCHANGED x
Spec == Init /\ [][Next]_vars

Spacings == << [sp |-> <<32>>, tight |-> FALSE], [sp |-> <<32>>, tight |-> TRUE], [sp |-> <<32, 32>>, tight |-> FALSE],
               [sp |-> <<10>>, tight |-> FALSE], [sp |-> <<9>>, tight |-> TRUE], [sp |-> <<13, 10>>, tight |-> FALSE] >>
Spell(f, i) == FPrint(f, Spacings[i].sp, Spacings[i].tight)
Strip(f) == f   \* numerals stay: ToJson below drops nothing the harness needs

ParseOk == Mode = "parse" => \A i \in 1..Len(Spacings) : LET r == FParse(Spell(x, i)) IN r.ok /\ FDenotes(r.v, x)
EvalTotal == Mode = "eval" => Eval(x[1], x[2]) \in {"T", "F", "U"}
Emit ==
    CASE Mode = "parse" -> PrintT("VEC " \o ToJson([op |-> "filter.parse", f |-> x, texts |-> [i \in 1..Len(Spacings) |-> Spell(x, i)]]))
      [] Mode = "eval" -> PrintT("VEC " \o ToJson([op |-> "filter.eval", f |-> x[1], text |-> FCanon(x[1]), rec |-> x[2]]))
      [] Mode = "grid" -> PrintT("VEC " \o ToJson([op |-> "filter.grid", f |-> x[1], text |-> FCanon(x[1]), rows |-> x[2]]))
      [] Mode = "weq" -> PrintT("VEC " \o ToJson([op |-> "filter.weq", rec |-> x[1], db |-> x[2], path |-> <<a>>, target |-> R1,
                                                  text |-> T("a *== @r1")]))
=============================================================================

------------------------------- MODULE HsCore -------------------------------
(***************************************************************************)
(* The Haystack value model, abstractly.                                    *)
(*                                                                          *)
(* Text is a sequence of Unicode code points (never a TLA+ string).         *)
(* A value is a record with a kind tag k (always compared first):           *)
(*   [k|->"null"] [k|->"marker"] [k|->"remove"] [k|->"na"]                  *)
(*   [k|->"bool", b]                                                        *)
(*   [k|->"num", bits, unit]      bits = "0x%016x" IEEE-754 binary64,        *)
(*                                unit = <<>> or <<symbol text>>            *)
(*   [k|->"str", s] [k|->"uri", s] [k|->"symbol", s]                        *)
(*   [k|->"ref", id, dis]         dis = <<>> or <<text>>                    *)
(*   [k|->"xstr", t, s]                                                     *)
(*   [k|->"date", y, m, d]  [k|->"time", h, mi, s, ns]                      *)
(*   [k|->"dt", day, sod, ns, off, tz]  day = days since 2000-01-01 (UTC),  *)
(*                                sod = second of that UTC day, off = local *)
(*                                offset in seconds, tz = zone (city) name  *)
(*   [k|->"coord", lat, lng]      both bits                                 *)
(*   [k|->"list", items]                                                    *)
(*   [k|->"dict", tags]           tags = <<<<name, value>>, ...>> sorted by *)
(*                                name (code point order), names unique     *)
(*   [k|->"grid", ver, meta, cols, rows]  meta: tags; cols: <<[name,meta]>>;*)
(*                                rows: <<tags, ...>>                       *)
(* An absent grid/column meta and an empty one are both <<>>.               *)
(***************************************************************************)
EXTENDS Integers, Sequences, FiniteSets, HsNum

Kinds == <<"null", "remove", "marker", "bool", "na", "num", "str", "uri", "ref", "symbol",
           "date", "time", "dt", "coord", "xstr", "list", "dict", "grid">>

----------------------------------------------------------------------------
\* character classes (code points)
IsDigit(c) == c >= 48 /\ c <= 57
IsLower(c) == c >= 97 /\ c <= 122
IsUpper(c) == c >= 65 /\ c <= 90
IsAlpha(c) == IsLower(c) \/ IsUpper(c)
IsAlnum(c) == IsAlpha(c) \/ IsDigit(c)
IsHex(c)   == IsDigit(c) \/ (c >= 97 /\ c <= 102) \/ (c >= 65 /\ c <= 70)
HexVal(c)  == IF IsDigit(c) THEN c - 48 ELSE IF c >= 97 THEN c - 87 ELSE c - 55
\* id characters of Ref / Symbol bodies
IsIdChar(c) == IsAlnum(c) \/ c \in {95, 58, 45, 46, 126}     \* _ : - . ~
\* tag / column name: lower (alnum | _)*
IsTagName(s) == /\ Len(s) >= 1 /\ IsLower(s[1])
                /\ \A i \in 2..Len(s) : IsAlnum(s[i]) \/ s[i] = 95
IsRefId(s)    == Len(s) >= 1 /\ \A i \in 1..Len(s) : IsIdChar(s[i])
\* Symbol body: the Zinc grammar starts it with a lower-case letter
IsSymbolBody(s) == Len(s) >= 1 /\ IsLower(s[1]) /\ \A i \in 2..Len(s) : IsIdChar(s[i])
IsXStrType(s) == /\ Len(s) >= 1 /\ IsUpper(s[1])
                 /\ \A i \in 2..Len(s) : IsAlnum(s[i]) \/ s[i] = 95
IsScalarValue(c) == c >= 0 /\ c <= 1114111 /\ ~(c >= 55296 /\ c <= 57343)
IsText(s) == \A i \in 1..Len(s) : IsScalarValue(s[i])
NoControls(s) == \A i \in 1..Len(s) : s[i] >= 32
\* zone (city) name as Zinc spells it
IsTzName(s) == /\ Len(s) >= 2 /\ IsUpper(s[1])
               /\ \A i \in 2..Len(s) : IsAlnum(s[i]) \/ s[i] \in {95, 47, 43, 45}

----------------------------------------------------------------------------
\* lexicographic order on code point sequences: -1, 0, 1
RECURSIVE TextCmpFrom(_, _, _)
TextCmpFrom(a, b, i) ==
    IF i > Len(a) /\ i > Len(b) THEN 0
    ELSE IF i > Len(a) THEN -1
    ELSE IF i > Len(b) THEN 1
    ELSE IF a[i] < b[i] THEN -1
    ELSE IF a[i] > b[i] THEN 1
    ELSE TextCmpFrom(a, b, i + 1)
TextCmp(a, b) == TextCmpFrom(a, b, 1)

\* UTF-8 byte order = code point order, so BTreeMap<String,_> order is TextCmp
TagsSorted(tags) == \A i \in 1..(Len(tags) - 1) : TextCmp(tags[i][1], tags[i + 1][1]) = -1

----------------------------------------------------------------------------
\* calendar
IsLeap(y) == (y % 4 = 0 /\ y % 100 # 0) \/ y % 400 = 0
DaysInMonth(y, m) == IF m = 2 THEN (IF IsLeap(y) THEN 29 ELSE 28)
                     ELSE IF m \in {4, 6, 9, 11} THEN 30 ELSE 31
ValidDate(y, m, d) == y >= 0 /\ y <= 9999 /\ m >= 1 /\ m <= 12 /\ d >= 1 /\ d <= DaysInMonth(y, m)
ValidTime(h, mi, s, ns) == h >= 0 /\ h <= 23 /\ mi >= 0 /\ mi <= 59 /\ s >= 0 /\ s <= 59
                           /\ ns >= 0 /\ ns <= 999999999
\* days from civil (proleptic Gregorian), relative to 2000-01-01 (Howard Hinnant's algorithm,
\* re-derived: era arithmetic on March-based years)
DaysFromCivil(y0, m, d) ==
    LET y   == IF m <= 2 THEN y0 - 1 ELSE y0
        era == y \div 400                     \* floor division
        yoe == y - era * 400
        mp  == IF m > 2 THEN m - 3 ELSE m + 9
        doy == (153 * mp + 2) \div 5 + d - 1
        doe == yoe * 365 + yoe \div 4 - yoe \div 100 + doy
    IN era * 146097 + doe - 719468 - 10957      \* 10957 = days 1970-01-01 .. 2000-01-01

----------------------------------------------------------------------------
\* Structural sameness.  Numbers: IEEE == on the doubles, all NaNs identified,
\* +0 and -0 the same number (weakest reading of "number value").
SameBits(a, b) == \/ F64Cmp(a, b) = 0
                  \/ (F64Class(a) = "nan" /\ F64Class(b) = "nan")

RECURSIVE Same(_, _)
SameTags(a, b) == /\ Len(a) = Len(b)
                  /\ \A i \in 1..Len(a) : a[i][1] = b[i][1] /\ Same(a[i][2], b[i][2])
Same(a, b) ==
    /\ a.k = b.k
    /\ CASE a.k \in {"null", "marker", "remove", "na"} -> TRUE
         [] a.k = "bool" -> a.b = b.b
         [] a.k = "num" -> SameBits(a.bits, b.bits) /\ a.unit = b.unit
         [] a.k \in {"str", "uri", "symbol"} -> a.s = b.s
         [] a.k = "ref" -> a.id = b.id /\ a.dis = b.dis
         [] a.k = "xstr" -> a.t = b.t /\ a.s = b.s
         [] a.k = "date" -> a.y = b.y /\ a.m = b.m /\ a.d = b.d
         [] a.k = "time" -> a.h = b.h /\ a.mi = b.mi /\ a.s = b.s /\ a.ns = b.ns
         [] a.k = "dt" -> a.day = b.day /\ a.sod = b.sod /\ a.ns = b.ns /\ a.off = b.off /\ a.tz = b.tz
         [] a.k = "coord" -> SameBits(a.lat, b.lat) /\ SameBits(a.lng, b.lng)
         [] a.k = "list" -> /\ Len(a.items) = Len(b.items)
                            /\ \A i \in 1..Len(a.items) : Same(a.items[i], b.items[i])
         [] a.k = "dict" -> SameTags(a.tags, b.tags)
         [] a.k = "grid" ->
               /\ a.ver = b.ver
               /\ SameTags(a.meta, b.meta)
               /\ Len(a.cols) = Len(b.cols)
               /\ \A i \in 1..Len(a.cols) : /\ a.cols[i].name = b.cols[i].name
                                            /\ SameTags(a.cols[i].meta, b.cols[i].meta)
               /\ Len(a.rows) = Len(b.rows)
               /\ \A i \in 1..Len(a.rows) : SameTags(a.rows[i], b.rows[i])
         [] OTHER -> FALSE

\* first place where two values differ, as a short path description (for diagnostics only)
RECURSIVE Diff(_, _)
DiffTags(a, b, what) ==
    IF Len(a) # Len(b) THEN <<what, "count">>
    ELSE LET bad == {i \in 1..Len(a) : ~(a[i][1] = b[i][1] /\ Same(a[i][2], b[i][2]))}
         IN IF bad = {} THEN <<>>
            ELSE LET i == CHOOSE j \in bad : \A j2 \in bad : j <= j2
                 IN IF a[i][1] # b[i][1] THEN <<what, "name", i>> ELSE <<what, i>> \o Diff(a[i][2], b[i][2])
Diff(a, b) ==
    IF Same(a, b) THEN <<>>
    ELSE IF a.k # b.k THEN <<"kind", a.k, b.k>>
    ELSE CASE a.k = "num" -> IF a.unit # b.unit THEN <<"unit">> ELSE <<"number", a.bits, b.bits>>
           [] a.k = "ref" -> IF a.id # b.id THEN <<"ref id">> ELSE <<"ref dis">>
           [] a.k = "dt" -> IF a.day # b.day \/ a.sod # b.sod \/ a.ns # b.ns THEN <<"instant">>
                            ELSE IF a.off # b.off THEN <<"offset">> ELSE <<"zone">>
           [] a.k = "list" -> IF Len(a.items) # Len(b.items) THEN <<"list length">>
                              ELSE LET i == CHOOSE j \in 1..Len(a.items) : ~Same(a.items[j], b.items[j])
                                   IN <<"item", i>> \o Diff(a.items[i], b.items[i])
           [] a.k = "dict" -> DiffTags(a.tags, b.tags, "tag")
           [] a.k = "grid" ->
                 IF a.ver # b.ver THEN <<"grid ver">>
                 ELSE IF ~SameTags(a.meta, b.meta) THEN DiffTags(a.meta, b.meta, "grid meta")
                 ELSE IF Len(a.cols) # Len(b.cols) THEN <<"column count">>
                 ELSE IF \E i \in 1..Len(a.cols) : a.cols[i].name # b.cols[i].name THEN <<"column name">>
                 ELSE IF \E i \in 1..Len(a.cols) : ~SameTags(a.cols[i].meta, b.cols[i].meta) THEN
                      LET i == CHOOSE j \in 1..Len(a.cols) : ~SameTags(a.cols[j].meta, b.cols[j].meta)
                      IN <<"column", i>> \o DiffTags(a.cols[i].meta, b.cols[i].meta, "column meta")
                 ELSE IF Len(a.rows) # Len(b.rows) THEN <<"row count">>
                 ELSE LET i == CHOOSE j \in 1..Len(a.rows) : ~SameTags(a.rows[j], b.rows[j])
                      IN <<"row", i>> \o DiffTags(a.rows[i], b.rows[i], "cell")
           [] OTHER -> <<a.k>>

----------------------------------------------------------------------------
\* Well-formedness: what the Haystack data model allows (the list in property C01).
\* U = the set of unit symbols of the unit database (a separate, generated module).
RECURSIVE WFv(_, _)
WFTags(tags, U) == /\ TagsSorted(tags)
                   /\ \A i \in 1..Len(tags) : IsTagName(tags[i][1]) /\ WFv(tags[i][2], U)
WFv(v, U) ==
    CASE v.k \in {"null", "marker", "remove", "na", "bool"} -> TRUE
      [] v.k = "num" -> /\ Len(v.unit) <= 1
                        /\ (Len(v.unit) = 1 => F64Class(v.bits) = "fin" /\ v.unit[1] \in U)
      [] v.k = "str" -> IsText(v.s)
      [] v.k = "uri" -> IsText(v.s) /\ NoControls(v.s)
      [] v.k = "symbol" -> IsSymbolBody(v.s)
      [] v.k = "ref" -> IsRefId(v.id) /\ Len(v.dis) <= 1 /\ (Len(v.dis) = 1 => IsText(v.dis[1]))
      [] v.k = "xstr" -> IsXStrType(v.t) /\ IsText(v.s)
      [] v.k = "date" -> ValidDate(v.y, v.m, v.d)
      [] v.k = "time" -> ValidTime(v.h, v.mi, v.s, v.ns)
      [] v.k = "dt" -> v.sod >= 0 /\ v.sod < 86400 /\ v.ns >= 0 /\ v.ns <= 999999999 /\ IsTzName(v.tz)
      [] v.k = "coord" -> F64Class(v.lat) = "fin" /\ F64Class(v.lng) = "fin"
      [] v.k = "list" -> \A i \in 1..Len(v.items) : WFv(v.items[i], U)
      [] v.k = "dict" -> WFTags(v.tags, U)
      [] v.k = "grid" ->
            /\ IsText(v.ver)
            /\ Len(v.cols) >= 1
            /\ WFTags(v.meta, U)
            /\ \A i \in 1..Len(v.cols) : IsTagName(v.cols[i].name) /\ WFTags(v.cols[i].meta, U)
            /\ \A i, j \in 1..Len(v.cols) : i # j => v.cols[i].name # v.cols[j].name
            /\ \A r \in 1..Len(v.rows) :
                  /\ WFTags(v.rows[r], U)
                  /\ \A t \in 1..Len(v.rows[r]) : \E c \in 1..Len(v.cols) : v.cols[c].name = v.rows[r][t][1]
      [] OTHER -> FALSE

\* all sub-values of a (read) value, itself included
RECURSIVE Parts(_)
PartsOfTags(tags) == UNION {Parts(tags[i][2]) : i \in 1..Len(tags)}
Parts(v) ==
    {v} \cup
    CASE v.k = "list" -> UNION {Parts(v.items[i]) : i \in 1..Len(v.items)}
      [] v.k = "dict" -> PartsOfTags(v.tags)
      [] v.k = "grid" -> PartsOfTags(v.meta) \cup UNION {PartsOfTags(v.cols[i].meta) : i \in 1..Len(v.cols)}
                         \cup UNION {PartsOfTags(v.rows[i]) : i \in 1..Len(v.rows)}
      [] OTHER -> {}

\* all unit texts occurring in a value (or read value)
RECURSIVE UnitsIn(_)
UnitsInTags(tags) == UNION {UnitsIn(tags[i][2]) : i \in 1..Len(tags)}
UnitsIn(v) ==
    CASE v.k = "num" -> {v.unit[i] : i \in 1..Len(v.unit)}
      [] v.k = "list" -> UNION {UnitsIn(v.items[i]) : i \in 1..Len(v.items)}
      [] v.k = "dict" -> UnitsInTags(v.tags)
      [] v.k = "grid" -> UnitsInTags(v.meta) \cup UNION {UnitsInTags(v.cols[i].meta) : i \in 1..Len(v.cols)}
                         \cup UNION {UnitsInTags(v.rows[i]) : i \in 1..Len(v.rows)}
      [] OTHER -> {}

----------------------------------------------------------------------------
\* constructors used by the model-checking instances
Null == [k |-> "null"]
Marker == [k |-> "marker"]
Remove == [k |-> "remove"]
NA == [k |-> "na"]
Bool(b) == [k |-> "bool", b |-> b]
NumOf(numeral, unit) == [k |-> "num", bits |-> F64OfNumeral(numeral), unit |-> unit]
Str(s) == [k |-> "str", s |-> s]
Uri(s) == [k |-> "uri", s |-> s]
Symbol(s) == [k |-> "symbol", s |-> s]
Ref(id, dis) == [k |-> "ref", id |-> id, dis |-> dis]
XStr(t, s) == [k |-> "xstr", t |-> t, s |-> s]
Date(y, m, d) == [k |-> "date", y |-> y, m |-> m, d |-> d]
Time(h, mi, s, ns) == [k |-> "time", h |-> h, mi |-> mi, s |-> s, ns |-> ns]
DateTime(day, sod, ns, off, tz) == [k |-> "dt", day |-> day, sod |-> sod, ns |-> ns, off |-> off, tz |-> tz]
Coord(lat, lng) == [k |-> "coord", lat |-> lat, lng |-> lng]
List(items) == [k |-> "list", items |-> items]
Dict(tags) == [k |-> "dict", tags |-> tags]
Grid(ver, meta, cols, rows) == [k |-> "grid", ver |-> ver, meta |-> meta, cols |-> cols, rows |-> rows]
Col(name, meta) == [name |-> name, meta |-> meta]

\* insert / overwrite a tag keeping the order
RECURSIVE TagsPutFrom(_, _, _, _)
TagsPutFrom(tags, name, v, i) ==
    IF i > Len(tags) THEN Append(tags, <<name, v>>)
    ELSE LET c == TextCmp(tags[i][1], name)
         IN IF c = 0 THEN [tags EXCEPT ![i] = <<name, v>>]
            ELSE IF c = 1 THEN SubSeq(tags, 1, i - 1) \o <<<<name, v>>>> \o SubSeq(tags, i, Len(tags))
            ELSE TagsPutFrom(tags, name, v, i + 1)
TagsPut(tags, name, v) == TagsPutFrom(tags, name, v, 1)
TagsHas(tags, name) == \E i \in 1..Len(tags) : tags[i][1] = name
TagsGet(tags, name) == tags[CHOOSE i \in 1..Len(tags) : tags[i][1] = name][2]
TagsRemove(tags, name) == SelectSeq(tags, LAMBDA t : t[1] # name)
TagNames(tags) == [i \in 1..Len(tags) |-> tags[i][1]]

\* names of a set sorted by code point order (BTreeMap / sort order), as a sequence
RECURSIVE SortNames(_)
SortNames(S) == IF S = {} THEN <<>> ELSE LET n == CHOOSE m \in S : \A o \in S : TextCmp(m, o) <= 0 IN <<n>> \o SortNames(S \ {n})
\* Grid::make_from_dicts: the records as rows in order, one column per distinct tag name, sorted, no column meta, ver 3.0
GridFromDicts(rows, meta) ==
    LET names == UNION {{rows[i][j][1] : j \in 1..Len(rows[i])} : i \in 1..Len(rows)}
        sorted == SortNames(names)
    IN Grid(<<51, 46, 48>>, meta, [i \in 1..Len(sorted) |-> Col(sorted[i], <<>>)], rows)
=============================================================================

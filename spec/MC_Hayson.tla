----------------------------- MODULE MC_Hayson -----------------------------
(***************************************************************************)
(* The Hayson specification checked against itself on the small universe:   *)
(* every tree the writer can produce (member orders, optional parts,        *)
(* number spellings) is read back as the value; one vector per state.       *)
(***************************************************************************)
EXTENDS HsUniverse, Hayson, TLC, Json

CONSTANTS MaxDepth, EmitVectors
VARIABLES v, d
vars == <<v, d>>

Init == (v \in Scalars /\ d = 0) \/ (v \in NameFamily /\ d = MaxDepth)
Next == d < MaxDepth /\ v' \in Wraps(v) /\ d' = d + 1
Spec == Init /\ [][Next]_vars

HStyleSeq ==
    << HPlain,
       [HPlain EXCEPT !.order = "rev"],
       [HPlain EXCEPT !.order = "rot", !.dictKind = TRUE],
       [HPlain EXCEPT !.meta = "absent", !.num = "dot0"],
       [HPlain EXCEPT !.meta = "empty", !.num = "e0", !.utcTz = TRUE],
       [HPlain EXCEPT !.order = "rev", !.num = "shift", !.dictKind = TRUE, !.meta = "absent"],
       [HPlain EXCEPT !.order = "rot", !.num = "E+0", !.utcTz = TRUE] >>
HStyles == {HStyleSeq[i] : i \in 1..Len(HStyleSeq)}

RoundTrip == \A st \in HStyles : HaysonDenotes(HaysonWrite(v, st), v)

Emit == EmitVectors =>
          PrintT("VEC " \o ToJson([op |-> "hayson.gen", v |-> [x \in DOMAIN v \ {"numeral"} |-> v[x]],
                                   trees |-> [i \in 1..Len(HStyleSeq) |-> HaysonWrite(v, HStyleSeq[i])]]))
=============================================================================

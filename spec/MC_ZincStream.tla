--------------------------- MODULE MC_ZincStream ---------------------------
(***************************************************************************)
(* ZincStream checked for every grid body of length <= MaxLen over          *)
(* { '1', '2', ',', NL, 'x' }, every reader schedule (Interrupted up to MaxIntr  *)
(* times in a row before any byte) and an I/O error at every offset.        *)
(***************************************************************************)
EXTENDS ZincStream, Json
CONSTANTS MaxLen
Bytes == {49, 50, 44, 10, 120}        \* 1 2 , NL x (x: a byte no cell of this sub-language starts with)
RECURSIVE Seqs(_)
Seqs(n) == IF n = 0 THEN {<<>>} ELSE LET s == Seqs(n - 1) IN s \cup {Append(x, b) : x \in {y \in s : Len(y) = n - 1}, b \in Bytes}
MCDatas == Seqs(MaxLen)
\* one vector per terminal state: the body, the failure offset, how the machine ended, the rows it handed out with the
\* reader offset at each hand-out, and the rows of the body - replayed through the real lazy iterator (dec.stream)
Emit == (pc = "done" \/ err # "none") =>
           PrintT("VEC " \o ToJson([op |-> "dec.stream", body |-> Data, fail_at |-> FailAt, merr |-> err, mrows |-> rows,
                                     myield |-> yieldedAt, mref |-> RefRows]))
=============================================================================

--------------------------- MODULE MC_ZincStream ---------------------------
(***************************************************************************)
(* ZincStream checked for every grid body of length <= MaxLen over          *)
(* { '1', '2', ',', NL }, every reader schedule (Interrupted up to MaxIntr  *)
(* times in a row before any byte) and an I/O error at every offset.        *)
(***************************************************************************)
EXTENDS ZincStream
CONSTANTS MaxLen
Bytes == {49, 50, 44, 10}
RECURSIVE Seqs(_)
Seqs(n) == IF n = 0 THEN {<<>>} ELSE LET s == Seqs(n - 1) IN s \cup {Append(x, b) : x \in {y \in s : Len(y) = n - 1}, b \in Bytes}
MCDatas == Seqs(MaxLen)
=============================================================================

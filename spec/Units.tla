-------------------------------- MODULE Units --------------------------------
(***************************************************************************)
(* The unit database (UnitsDb, generated from unit-gen/units.txt by an      *)
(* independent converter), lookup, dimension algebra, the conversion law    *)
(* and Number arithmetic (properties C15, C16).  Exact decimal arithmetic   *)
(* is HsNum's (Java override): the laws are here, the primitive is not.     *)
(***************************************************************************)
EXTENDS Zinc, UnitsDb

\* identifier -> index of its unit (a constant, evaluated once)
IdxOf == [id \in UnitIds |-> CHOOSE i \in 1..Len(Units) : \E j \in 1..Len(Units[i].ids) : Units[i].ids[j] = id]
UnitIdx(id) == IF id \in DOMAIN IdxOf THEN IdxOf[id] ELSE 0
SymbolOf(u) == u.ids[Len(u.ids)]
NameOf(u) == u.ids[1]

\* ---- data theorems (C15) ----
IdsUnique == \A i, k \in 1..Len(Units) : i # k => \A j \in 1..Len(Units[i].ids) : \A m \in 1..Len(Units[k].ids) : Units[i].ids[j] # Units[k].ids[m]
\* a symbol can follow a number in Zinc: it is a non-empty word of the unit alphabet, and the number grammar neither
\* continues into it nor cuts it
NumeralsForSymbols == {CodePoints("1"), CodePoints("-1.5"), CodePoints("1e3"), CodePoints("1E-3"), CodePoints("12_345.5")}
SymbolReadable(u) ==
    LET s == SymbolOf(u) IN
    /\ Len(s) >= 1 /\ \A i \in 1..Len(s) : IsUnitChar(s[i])
    /\ \A n \in NumeralsForSymbols :
          LET r == ZincRead(n \o s) IN r.ok /\ r.v.k = "num" /\ r.v.unit = <<s>> /\ r.v.numeral = StripUnderscores(n)

\* ---- conversion (C16) ----
SameDim(a, b) == a.dim = b.dim
Convertible(a, b) == SameDim(a, b)
Abs(n) == IF DecCmp(n, <<48>>) < 0 THEN DecSub(<<48>>, n) ELSE n
Max2(x, y) == IF DecCmp(x, y) >= 0 THEN x ELSE y
ConvExact(x, a, b) == DecDiv(DecSub(DecAdd(DecMul(x, a.scale), a.offset), b.offset), b.scale)
\* magnitude that bounds the rounding error of the floating point evaluation
ConvMagnitude(x, a, b) == Max2(<<49>>, Max2(Abs(ConvExact(x, a, b)),
                               Abs(DecDiv(DecAdd(DecAdd(Abs(DecMul(x, a.scale)), Abs(a.offset)), Abs(b.offset)), b.scale))))
Tol == CodePoints("0.000000000001")          \* 1e-12
Close(got, exact, mag) == DecCmp(Abs(DecSub(got, exact)), DecMul(Tol, mag)) <= 0

\* ---- unit product / quotient (C16): when it yields anything ----
DimAdd(d, e) == [kg |-> d.kg + e.kg, m |-> d.m + e.m, sec |-> d.sec + e.sec, K |-> d.K + e.K, A |-> d.A + e.A, mol |-> d.mol + e.mol, cd |-> d.cd + e.cd]
DimSub(d, e) == [kg |-> d.kg - e.kg, m |-> d.m - e.m, sec |-> d.sec - e.sec, K |-> d.K - e.K, A |-> d.A - e.A, mol |-> d.mol - e.mol, cd |-> d.cd - e.cd]
ScaleTol == CodePoints("0.001")
ScaleClose(s, want) == DecCmp(Abs(DecSub(s, want)), DecMul(ScaleTol, Abs(want))) <= 0
ProductOk(u, a, b) == u.dim = DimAdd(a.dim, b.dim) /\ ScaleClose(u.scale, DecMul(a.scale, b.scale))
QuotientOk(u, a, b) == u.dim = DimSub(a.dim, b.dim) /\ ScaleClose(u.scale, DecDiv(a.scale, b.scale))
=============================================================================

------------------------------- MODULE Filter -------------------------------
(***************************************************************************)
(* The Haystack filter language (docHaystack/Filters) with the extensions   *)
(* libhaystack documents (^symbol, rel? ^term @ref, *==):                   *)
(*   filter := and ("or" and)*      and := term ("and" term)*               *)
(*   term   := "(" filter ")" | "not" path | path | path cmpOp lit          *)
(*           | path "*==" ref | "^" symbol | name "?" ["^" symbol] [ref]    *)
(*   path   := name ("->" name)*    cmpOp := == != < <= > >=                *)
(*   lit    := true | false | number | str | uri | ref | symbol | date      *)
(*           | time | dateTime            (Zinc scalar spelling)            *)
(* Tokens may be separated by white space (space, tab, NL, CR).             *)
(* and / or / not / true / false are reserved names.                        *)
(*                                                                          *)
(* Abstract filter: [ors |-> << <<term, ...>>, ... >>]; terms:              *)
(*   [t|->"has", path] [t|->"missing", path] [t|->"cmp", path, op, val]     *)
(*   [t|->"weq", path, ref] [t|->"isa", sym] [t|->"rel", rel, term, ref]    *)
(*   [t|->"parens", f]                                                      *)
(* FParse yields the same shape with *read values* as literals; FDenotes    *)
(* relates it to an abstract filter.  Eval is denotational, three-valued:   *)
(* "T", "F", or "U" where the language leaves the answer open (ordering of  *)
(* Numbers with different units).                                           *)
(***************************************************************************)
EXTENDS Zinc

IsWs(c) == c \in {32, 9, 10, 13}
RECURSIVE SkipWs(_, _)
SkipWs(t, p) == IF IsWs(At(t, p)) THEN SkipWs(t, p + 1) ELSE p

W(s) == CodePoints(s)
Reserved == {W("and"), W("or"), W("not"), W("true"), W("false")}
\* the word (name) at p, <<>> if none
WordAt(t, p) == LET e == TagNameEnd(t, p) IN IF e = 0 THEN <<>> ELSE SubSeq(t, p, e - 1)

\* path at p: returns [ok, v |-> <<name...>>, p]
RECURSIVE ReadPathFrom(_, _, _)
ReadPathFrom(t, p, acc) ==
    LET e == TagNameEnd(t, p) IN
    IF e = 0 THEN Fail(p, "expected name")
    ELSE LET acc2 == Append(acc, SubSeq(t, p, e - 1)) IN
         IF At(t, e) = 45 /\ At(t, e + 1) = 62 THEN ReadPathFrom(t, e + 2, acc2) ELSE Ok(acc2, e)

LitKinds == {"bool", "num", "str", "uri", "ref", "symbol", "date", "time", "dt"}
ReadLit(t, p) ==
    LET w == WordAt(t, p) IN
    IF w = W("true") THEN Ok(Bool(TRUE), p + 4)
    ELSE IF w = W("false") THEN Ok(Bool(FALSE), p + 5)
    ELSE LET r == ReadVal(t, p) IN
         IF ~r.ok THEN r
         ELSE IF r.v.k \notin LitKinds \ {"bool"} THEN Fail(p, "not a filter literal")
         ELSE IF r.v.k = "num" /\ r.v.cls # "fin" THEN Fail(p, "non-finite number literal")
         ELSE r

\* comparison operator at p: [op, p] or op = ""
OpAt(t, p) ==
    LET c == At(t, p)  d == At(t, p + 1) IN
    IF c = 61 /\ d = 61 THEN [op |-> "==", p |-> p + 2]
    ELSE IF c = 33 /\ d = 61 THEN [op |-> "!=", p |-> p + 2]
    ELSE IF c = 60 /\ d = 61 THEN [op |-> "<=", p |-> p + 2]
    ELSE IF c = 62 /\ d = 61 THEN [op |-> ">=", p |-> p + 2]
    ELSE IF c = 60 THEN [op |-> "<", p |-> p + 1]
    ELSE IF c = 62 THEN [op |-> ">", p |-> p + 1]
    ELSE IF c = 42 /\ d = 61 /\ At(t, p + 2) = 61 THEN [op |-> "*==", p |-> p + 3]
    ELSE [op |-> "", p |-> p]

RECURSIVE ReadOr(_, _, _), ReadAnd(_, _, _), ReadTerm(_, _)

ReadTerm(t, p0) ==
    LET p == SkipWs(t, p0)
        c == At(t, p)
    IN IF c = 40 THEN
          LET r == ReadOr(t, p + 1, <<>>) IN
          IF ~r.ok THEN r
          ELSE LET q == SkipWs(t, r.p) IN
               IF At(t, q) # 41 THEN Fail(q, "expected )") ELSE Ok([t |-> "parens", f |-> [ors |-> r.v]], q + 1)
       ELSE IF c = 94 THEN
          LET s == ReadSymbol(t, p) IN IF ~s.ok THEN s ELSE Ok([t |-> "isa", sym |-> s.v.s], s.p)
       ELSE IF ~IsLower(c) THEN Fail(p, "expected term")
       ELSE LET w == WordAt(t, p) IN
            IF w = W("not") THEN
               LET q == SkipWs(t, p + 3)
                   r == ReadPathFrom(t, q, <<>>)
               IN IF q = p + 3 THEN Fail(p, "expected space after not")
                  ELSE IF ~r.ok THEN r
                  ELSE IF \E i \in 1..Len(r.v) : r.v[i] \in Reserved THEN Fail(q, "reserved name")
                  ELSE Ok([t |-> "missing", path |-> r.v], r.p)
            ELSE IF w \in Reserved THEN Fail(p, "reserved name")
            ELSE IF At(t, SkipWs(t, p + Len(w))) = 63 /\ ~(At(t, p + Len(w)) = 45) THEN
               \* relationship: name "?" ["^" symbol] [ref]
               LET q1 == SkipWs(t, SkipWs(t, p + Len(w)) + 1)
                   sy == IF At(t, q1) = 94 THEN ReadSymbol(t, q1) ELSE Ok(Null, q1)
               IN IF ~sy.ok THEN sy
                  ELSE LET q2 == SkipWs(t, sy.p)
                           rf == IF At(t, q2) = 64 THEN ReadRef(t, q2) ELSE Ok(Null, sy.p)
                       IN IF ~rf.ok THEN rf
                          ELSE Ok([t |-> "rel", rel |-> w, term |-> IF sy.v.k = "symbol" THEN <<sy.v.s>> ELSE <<>>,
                                   ref |-> IF rf.v.k = "ref" THEN <<rf.v>> ELSE <<>>], rf.p)
            ELSE LET r == ReadPathFrom(t, p, <<>>) IN
                 IF ~r.ok THEN r
                 ELSE IF \E i \in 1..Len(r.v) : r.v[i] \in Reserved THEN Fail(p, "reserved name")
                 ELSE LET q == SkipWs(t, r.p)
                          o == OpAt(t, q)
                      IN IF o.op = "" THEN Ok([t |-> "has", path |-> r.v], r.p)
                         ELSE LET l == ReadLit(t, SkipWs(t, o.p)) IN
                              IF ~l.ok THEN l
                              ELSE IF o.op = "*==" THEN
                                 (IF l.v.k = "ref" THEN Ok([t |-> "weq", path |-> r.v, ref |-> l.v], l.p) ELSE Fail(o.p, "*== needs a ref"))
                              ELSE Ok([t |-> "cmp", path |-> r.v, op |-> o.op, val |-> l.v], l.p)

\* a keyword must be a whole word
KeywordAt(t, p, kw) == WordAt(t, p) = kw

ReadAnd(t, p, acc) ==
    LET r == ReadTerm(t, p) IN
    IF ~r.ok THEN r
    ELSE LET q == SkipWs(t, r.p) IN
         IF KeywordAt(t, q, W("and")) THEN ReadAnd(t, q + 3, Append(acc, r.v)) ELSE Ok(Append(acc, r.v), r.p)

ReadOr(t, p, acc) ==
    LET r == ReadAnd(t, p, <<>>) IN
    IF ~r.ok THEN r
    ELSE LET q == SkipWs(t, r.p) IN
         IF KeywordAt(t, q, W("or")) THEN ReadOr(t, q + 2, Append(acc, r.v)) ELSE Ok(Append(acc, r.v), r.p)

FParse(t) ==
    LET r == ReadOr(t, 1, <<>>) IN
    IF ~r.ok THEN r
    ELSE IF SkipWs(t, r.p) <= Len(t) THEN Fail(SkipWs(t, r.p), "trailing text")
    ELSE Ok([ors |-> r.v], Len(t) + 1)

----------------------------------------------------------------------------
\* read tree denotes abstract filter
RECURSIVE FDenotes(_, _)
TermDenotes(r, a) ==
    /\ r.t = a.t
    /\ CASE r.t \in {"has", "missing"} -> r.path = a.path
         [] r.t = "cmp" -> r.path = a.path /\ r.op = a.op /\ Denotes(r.val, a.val)
         [] r.t = "weq" -> r.path = a.path /\ r.ref.id = a.ref.id        \* the display name of a *== / relationship Ref is not part
                                                                  \* of the filter: Ref equality ignores it and so does selection
         [] r.t = "isa" -> r.sym = a.sym
         [] r.t = "rel" -> /\ r.rel = a.rel /\ r.term = a.term /\ Len(r.ref) = Len(a.ref)
                           /\ (Len(r.ref) = 1 => r.ref[1].id = a.ref[1].id)
         [] r.t = "parens" -> FDenotes(r.f, a.f)
         [] OTHER -> FALSE
FDenotes(r, a) ==
    /\ Len(r.ors) = Len(a.ors)
    /\ \A i \in 1..Len(a.ors) :
          /\ Len(r.ors[i]) = Len(a.ors[i])
          /\ \A j \in 1..Len(a.ors[i]) : TermDenotes(r.ors[i][j], a.ors[i][j])

\* structural sameness of two abstract filters (literals by Same)
RECURSIVE FSame(_, _)
TermSame(x, y) ==
    /\ x.t = y.t
    /\ CASE x.t \in {"has", "missing"} -> x.path = y.path
         [] x.t = "cmp" -> x.path = y.path /\ x.op = y.op /\ Same(x.val, y.val)
         [] x.t = "weq" -> x.path = y.path /\ x.ref.id = y.ref.id
         [] x.t = "isa" -> x.sym = y.sym
         [] x.t = "rel" -> x.rel = y.rel /\ x.term = y.term /\ Len(x.ref) = Len(y.ref) /\ (Len(x.ref) = 1 => x.ref[1].id = y.ref[1].id)
         [] x.t = "parens" -> FSame(x.f, y.f)
         [] OTHER -> FALSE
FSame(x, y) ==
    /\ Len(x.ors) = Len(y.ors)
    /\ \A i \in 1..Len(x.ors) : /\ Len(x.ors[i]) = Len(y.ors[i])
                               /\ \A j \in 1..Len(x.ors[i]) : TermSame(x.ors[i][j], y.ors[i][j])

\* an abstract filter (as projected from the implementation) uses only names the grammar admits
RECURSIVE FWellFormed(_)
PathOk(p) == Len(p) >= 1 /\ \A i \in 1..Len(p) : IsTagName(p[i]) /\ p[i] \notin Reserved
FWellFormed(f) ==
    \A i \in 1..Len(f.ors) : \A j \in 1..Len(f.ors[i]) :
        LET x == f.ors[i][j] IN
        CASE x.t \in {"has", "missing", "cmp", "weq"} -> PathOk(x.path)
          [] x.t = "rel" -> IsTagName(x.rel) /\ x.rel \notin Reserved
          [] x.t = "parens" -> FWellFormed(x.f)
          [] OTHER -> TRUE

\* sentences whose well-formedness the specification can decide (see Trace_Total!RvDecidable): no timestamps
\* (zone names are tz-database facts), numerals in range; unit symbols are compared by the caller
RECURSIVE FDecidable(_)
LitDecidable(v) == v.k # "dt" /\ (v.k = "num" => v.unit = <<>> /\ F64Class(F64OfNumeral(v.numeral)) = "fin")
FDecidable(f) ==
    \A i \in 1..Len(f.ors) : \A j \in 1..Len(f.ors[i]) :
        LET x == f.ors[i][j] IN
        CASE x.t = "cmp" -> LitDecidable(x.val)
          [] x.t = "parens" -> FDecidable(x.f)
          [] OTHER -> TRUE

----------------------------------------------------------------------------
\* printer; sp = white space written between tokens, tight = no space around comparison operators / inside parens
RECURSIVE FPrint(_, _, _), Join(_)
Join(path) == IF Len(path) = 1 THEN path[1] ELSE path[1] \o <<45, 62>> \o Join(Tail(path))
LitText(v) == IF v.k = "bool" THEN (IF v.b THEN W("true") ELSE W("false")) ELSE ZW(v, PlainStyle, 0)
TermText(x, sp, tight) ==
    LET g == IF tight THEN <<>> ELSE sp IN
    CASE x.t = "has" -> Join(x.path)
      [] x.t = "missing" -> W("not") \o sp \o Join(x.path)
      [] x.t = "cmp" -> Join(x.path) \o g \o W(x.op) \o g \o LitText(x.val)
      [] x.t = "weq" -> Join(x.path) \o g \o W("*==") \o g \o LitText(x.ref)
      [] x.t = "isa" -> <<94>> \o x.sym
      [] x.t = "rel" -> x.rel \o <<63>> \o (IF x.term = <<>> THEN <<>> ELSE sp \o <<94>> \o x.term[1])
                        \o (IF x.ref = <<>> THEN <<>> ELSE sp \o LitText(x.ref[1]))
      [] x.t = "parens" -> <<40>> \o g \o FPrint(x.f, sp, tight) \o g \o <<41>>
RECURSIVE AndText(_, _, _, _), OrText(_, _, _, _)
AndText(ts, i, sp, tight) == TermText(ts[i], sp, tight) \o (IF i < Len(ts) THEN sp \o W("and") \o sp \o AndText(ts, i + 1, sp, tight) ELSE <<>>)
OrText(os, i, sp, tight) == AndText(os[i], 1, sp, tight) \o (IF i < Len(os) THEN sp \o W("or") \o sp \o OrText(os, i + 1, sp, tight) ELSE <<>>)
FPrint(f, sp, tight) == OrText(f.ors, 1, sp, tight)
FCanon(f) == FPrint(f, <<32>>, FALSE)

----------------------------------------------------------------------------
\* evaluation over a record (sorted tags) with the dict resolver: a->b looks b up in the Dict a resolves to
Absent == [k |-> "absent"]
RECURSIVE Resolve(_, _)
Resolve(tags, path) ==
    IF ~TagsHas(tags, path[1]) THEN Absent
    ELSE LET v == TagsGet(tags, path[1]) IN
         IF v.k = "null" THEN Absent
         ELSE IF Len(path) = 1 THEN v
         ELSE IF v.k = "dict" THEN Resolve(v.tags, Tail(path)) ELSE Absent

FEq(x, y) ==
    /\ x.k = y.k
    /\ CASE x.k = "num" -> F64Cmp(x.bits, y.bits) = 0 /\ x.unit = y.unit
         [] x.k = "ref" -> x.id = y.id
         [] x.k = "dt" -> x.day = y.day /\ x.sod = y.sod /\ x.ns = y.ns
         [] OTHER -> Same(x, y)

\* -1, 0, 1 for same-kind values; 2 = left open by the language
Order(x, y) ==
    CASE x.k = "num" -> IF x.unit = y.unit THEN F64Cmp(x.bits, y.bits) ELSE 2
      [] x.k \in {"str", "uri", "symbol"} -> TextCmp(x.s, y.s)
      [] x.k = "ref" -> TextCmp(x.id, y.id)
      [] x.k = "bool" -> IF x.b = y.b THEN 0 ELSE IF y.b THEN -1 ELSE 1
      [] x.k = "date" -> IF x.y # y.y THEN (IF x.y < y.y THEN -1 ELSE 1) ELSE IF x.m # y.m THEN (IF x.m < y.m THEN -1 ELSE 1)
                         ELSE IF x.d # y.d THEN (IF x.d < y.d THEN -1 ELSE 1) ELSE 0
      [] x.k = "time" -> LET a == x.h * 3600 + x.mi * 60 + x.s  b == y.h * 3600 + y.mi * 60 + y.s IN
                         IF a # b THEN (IF a < b THEN -1 ELSE 1) ELSE IF x.ns # y.ns THEN (IF x.ns < y.ns THEN -1 ELSE 1) ELSE 0
      [] x.k = "dt" -> IF x.day # y.day THEN (IF x.day < y.day THEN -1 ELSE 1) ELSE IF x.sod # y.sod THEN (IF x.sod < y.sod THEN -1 ELSE 1)
                       ELSE IF x.ns # y.ns THEN (IF x.ns < y.ns THEN -1 ELSE 1) ELSE 0
      [] OTHER -> 2

B(b) == IF b THEN "T" ELSE "F"
CmpOne(x, op, lit) ==
    IF op = "==" THEN B(FEq(x, lit))
    ELSE IF op = "!=" THEN B(~FEq(x, lit))
    ELSE IF x.k # lit.k THEN "F"
    ELSE LET o == Order(x, lit) IN
         IF o = 2 THEN "U"
         ELSE CASE op = "<" -> B(o = -1) [] op = "<=" -> B(o \in {-1, 0}) [] op = ">" -> B(o = 1) [] op = ">=" -> B(o \in {0, 1})

Or3(s) == IF "T" \in s THEN "T" ELSE IF "U" \in s THEN "U" ELSE "F"
And3(s) == IF "F" \in s THEN "F" ELSE IF "U" \in s THEN "U" ELSE "T"

RECURSIVE CmpVal(_, _, _)
CmpVal(x, op, lit) ==
    IF x.k = "list" /\ lit.k # "list" THEN Or3({CmpVal(x.items[i], op, lit) : i \in 1..Len(x.items)})
    ELSE IF x.k = "null" THEN "F"
    ELSE CmpOne(x, op, lit)

RECURSIVE Eval(_, _)
EvalTerm(x, tags) ==
    CASE x.t = "has" -> B(Resolve(tags, x.path).k # "absent")
      [] x.t = "missing" -> B(Resolve(tags, x.path).k = "absent")
      [] x.t = "cmp" -> LET v == Resolve(tags, x.path) IN IF v.k = "absent" THEN "F" ELSE CmpVal(v, x.op, x.val)
      [] x.t = "parens" -> Eval(x.f, tags)
      [] OTHER -> "U"          \* isa / rel / *== need the defs namespace / a resolver: Defs.tla
Eval(f, tags) == Or3({And3({EvalTerm(f.ors[i][j], tags) : j \in 1..Len(f.ors[i])}) : i \in 1..Len(f.ors)})

\* `*==` : follow the chain of Refs through the path, in a database db (sequence of records with an id tag)
DbFind(db, id) == IF \E i \in 1..Len(db) : TagsHas(db[i], W("id")) /\ TagsGet(db[i], W("id")).k = "ref" /\ TagsGet(db[i], W("id")).id = id
                  THEN <<db[CHOOSE i \in 1..Len(db) : TagsHas(db[i], W("id")) /\ TagsGet(db[i], W("id")).k = "ref" /\ TagsGet(db[i], W("id")).id = id]>>
                  ELSE <<>>
RECURSIVE Chase(_, _, _, _, _)
Chase(v, path, target, db, seen) ==
    IF v.k # "ref" THEN FALSE
    ELSE IF v.id = target.id THEN TRUE
    ELSE IF v.id \in seen THEN FALSE
    ELSE LET r == DbFind(db, v.id) IN
         IF r = <<>> THEN FALSE ELSE Chase(Resolve(r[1], path), path, target, db, seen \cup {v.id})
WildcardEq(tags, path, target, db) == Chase(Resolve(tags, path), path, target, db, {})
=============================================================================

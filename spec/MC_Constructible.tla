-------------------------- MODULE MC_Constructible --------------------------
(***************************************************************************)
(* The universe of property C10: values that can be constructed through     *)
(* the public API, well-formed or not.  Every String-typed field ranges     *)
(* over string classes (empty, lower, upper, digit-first, 2-byte-first,     *)
(* astral-first, contains NUL / quote / newline / backslash), every         *)
(* collection over shape classes (empty, grid without columns, rows whose   *)
(* keys are not columns, duplicate columns, empty-but-present meta).        *)
(* The specification supplies the universe; the verdict "no panic" is the   *)
(* harness monitor's observation, judged by Trace_Enc.                      *)
(***************************************************************************)
EXTENDS HsUniverse, TLC, Json

CONSTANTS MaxDepth
VARIABLES v, d
vars == <<v, d>>

Strs == {<<>>, <<97>>, <<65>>, <<49, 97>>, <<233, 97>>, <<128512, 97>>, <<97, 0, 98>>, <<34>>, <<10>>, <<92>>, <<36, 123>>,
         <<32>>, <<97, 32, 98>>, <<95, 107, 105, 110, 100>>}
Nan == "0x7ff8000000000000"
Inf == "0x7ff0000000000000"

Weird ==
    {Str(s) : s \in Strs} \cup {Uri(s) : s \in Strs} \cup {Symbol(s) : s \in Strs}
    \cup {Ref(s, <<>>) : s \in Strs} \cup {Ref(T("a"), <<s>>) : s \in Strs}
    \cup {XStr(s, T("v")) : s \in Strs} \cup {XStr(T("Bin"), s) : s \in Strs}
    \cup {[k |-> "num", bits |-> bb, unit |-> u] : bb \in {Nan, Inf, "0xfff0000000000000", "0x0000000000000001", "0x8000000000000000"},
                                                   u \in {<<>>, <<T("m")>>, <<T("%")>>}}
    \cup {Coord(Nan, Inf), Coord("0xfff0000000000000", "0x8000000000000000")}
    \* times on a leap second (chrono: second 59 with 1 000 000 000 .. 1 999 999 999 ns), as `23:59:60` decodes to
    \cup {Time(23, 59, 59, 1000000000), Time(23, 59, 59, 1500000000), Time(12, 30, 59, 1999999999)}
    \cup {Date(10000, 1, 1), Date(99999, 12, 31)}
    \cup {DT(2021, 6, 15, 43200, 0, 0, "UTC")}

WeirdDicts == {Dict(<<<<s, One>>>>) : s \in Strs} \cup {Dict(<<<<<<>>, Marker>>, <<<<65>>, Str(<<34>>)>>>>)}
G(ver, meta, cols, rows, some) == [k |-> "grid", ver |-> ver, meta |-> meta, cols |-> cols, rows |-> rows, meta_some |-> some]
WeirdGrids ==
    { G(T("3.0"), <<>>, <<>>, <<>>, FALSE),                                             \* no columns at all
      G(T("3.0"), <<>>, <<>>, <<<<<<a, One>>>>>>, FALSE),                               \* rows but no columns
      G(T("3.0"), <<>>, <<Col(a, <<>>)>>, <<<<<<b, One>>>>>>, FALSE),                   \* row key is not a column
      G(T("3.0"), <<>>, <<Col(a, <<>>), Col(a, <<>>)>>, <<<<<<a, One>>>>>>, FALSE),     \* duplicate column names
      G(T("3.0"), <<>>, <<Col(a, <<>>)>>, <<>>, TRUE),                                  \* meta present but empty
      G(<<>>, <<>>, <<Col(a, <<>>)>>, <<>>, FALSE),                                     \* empty ver
      G(<<34, 10>>, <<>>, <<Col(a, <<>>)>>, <<>>, FALSE) }                              \* ver with quote and newline
    \cup {G(T("3.0"), <<>>, <<Col(s, <<>>)>>, <<<<<<s, One>>>>>>, FALSE) : s \in Strs}  \* column name classes
    \cup {G(T("3.0"), <<<<s, One>>>>, <<Col(a, <<<<s, Marker>>>>)>>, <<>>, FALSE) : s \in Strs}

Init == v \in Weird \cup WeirdDicts \cup WeirdGrids \cup Scalars /\ d = 0
Next == d < MaxDepth /\ v' \in Wraps(v) /\ d' = d + 1
Spec == Init /\ [][Next]_vars

Emit == PrintT("VEC " \o ToJson([op |-> "enc.all", v |-> [x \in DOMAIN v \ {"numeral"} |-> v[x]]]))
=============================================================================

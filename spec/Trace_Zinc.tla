----------------------------- MODULE Trace_Zinc -----------------------------
(***************************************************************************)
(* Validates recorded Zinc codec executions of libhaystack against Zinc.tla *)
(*  zinc.rt   : libhaystack encoded v to text and decoded text to back      *)
(*      C01  outcome = ok /\ Same(back, v)                                  *)
(*      C04  the text is a sentence of the grammar denoting v               *)
(*  zinc.read : the spec writer spelled v as text (style st), libhaystack   *)
(*              decoded it to back                                          *)
(*      C04  outcome = ok /\ Same(back, v)                                  *)
(*      (the spelling is first re-checked against the spec reader: a        *)
(*       failure there is a defect of the specification, tagged SPEC)       *)
(***************************************************************************)
EXTENDS Zinc, TraceBase

VARIABLES l, nbad

CheckRt(e) ==
    Need(e.outcome \notin {"panic", "encpanic"}, "C10", <<"panic", e.msg>>)
    \o Need(e.outcome = "ok", "C01", <<"encode/decode failed", e.outcome, e.msg>>)
    \o (IF e.outcome = "ok" THEN Need(Same(e.back, e.v), "C01", Diff(e.v, e.back)) ELSE <<>>)
    \o (IF e.outcome \in {"encerr", "encpanic"} THEN <<>>
        ELSE Need(ZincDenotes(e.text, e.v), "C04", <<"written text">> \o ZincWhyNot(e.text, e.v)))
    \o Need(e.trait_same, "C01", <<"Value::to_zinc_string differs from to_zinc_string(value)">>)

CheckRead(e) ==
    IF ~ZincDenotes(e.text, e.v) THEN <<<<"SPEC", <<"spec writer/reader disagree">> \o ZincWhyNot(e.text, e.v)>>>>
    ELSE Need(e.outcome # "panic", "C03", <<"panic", e.msg>>)
         \o Need(e.outcome = "ok", "C04", <<"sentence rejected", e.st, e.msg>>)
         \o (IF e.outcome = "ok" THEN Need(Same(e.back, e.v), "C04", <<"sentence misread", e.st>> \o Diff(e.v, e.back)) ELSE <<>>)

Check(e) == CASE e.op = "zinc.rt" -> CheckRt(e)
              [] e.op = "zinc.read" -> CheckRead(e)
              [] OTHER -> <<<<"SPEC", <<"unknown op", e.op>>>>>>

Init == l = 1 /\ nbad = 0
Next == \/ /\ l <= Len(Rec)
           /\ LET r == Check(Rec[l]) IN Report(Rec[l].i, r, 1) /\ nbad' = nbad + Len(r)
           /\ l' = l + 1
        \/ /\ l = Len(Rec) + 1
           /\ PrintT("CONSUMED " \o ToString(Len(Rec)) \o " " \o ToString(nbad))
           /\ l' = l + 1 /\ nbad' = nbad
Spec == Init /\ [][Next]_<<l, nbad>>
=============================================================================

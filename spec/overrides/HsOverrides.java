import java.math.BigDecimal;
import java.math.BigInteger;
import java.math.MathContext;
import tlc2.overrides.ITLCOverrides;
import tlc2.overrides.TLAPlusOperator;
import tlc2.value.impl.BoolValue;
import tlc2.value.impl.IntValue;
import tlc2.value.impl.StringValue;
import tlc2.value.impl.TupleValue;
import tlc2.value.impl.Value;

/**
 * Arithmetic primitives for HsNum.tla. Contains arithmetic only: no Haystack logic.
 * RoundsToF64 is decided from first principles (exact midpoints between neighbouring
 * doubles, ties to even), independent of any decimal parser.
 */
public class HsOverrides implements ITLCOverrides {
    @SuppressWarnings("rawtypes")
    @Override
    public Class[] get() { return new Class[] { HsOverrides.class }; }

    // ---- conversions --------------------------------------------------
    static String str(Value v) {
        if (v instanceof StringValue) return ((StringValue) v).val.toString();
        Value t = v.toTuple();
        if (t == null) throw new RuntimeException("HsOverrides: expected code point sequence or string, got " + v);
        TupleValue tv = (TupleValue) t;
        StringBuilder sb = new StringBuilder();
        for (Value e : tv.elems) sb.appendCodePoint(((IntValue) e).val);
        return sb.toString();
    }
    static Value cps(String s) {
        int[] c = s.codePoints().toArray();
        Value[] out = new Value[c.length];
        for (int i = 0; i < c.length; i++) out[i] = IntValue.gen(c[i]);
        return new TupleValue(out);
    }
    static long bits(Value v) {
        String s = str(v);
        if (!s.startsWith("0x")) throw new RuntimeException("HsOverrides: bad bits " + s);
        return Long.parseUnsignedLong(s.substring(2), 16);
    }
    static Value hex(long b) { return new StringValue(String.format("0x%016x", b)); }
    static boolean isNumeral(String s) {
        return s.matches("-?[0-9]+(\\.[0-9]+)?([eE][+-]?[0-9]+)?");
    }
    /** exact value of a numeral; exponents beyond +-5000 are clamped (far outside binary64 either way) */
    static BigDecimal big(String s) {
        int e = Math.max(s.indexOf('e'), s.indexOf('E'));
        if (e < 0) return new BigDecimal(s);
        BigDecimal m = new BigDecimal(s.substring(0, e));
        String es = s.substring(e + 1);
        if (es.startsWith("+")) es = es.substring(1);
        BigInteger ex = new BigInteger(es);
        if (m.signum() == 0) return BigDecimal.ZERO;
        if (ex.abs().compareTo(BigInteger.valueOf(5000)) > 0) ex = BigInteger.valueOf(ex.signum() > 0 ? 5000 : -5000);
        if (m.precision() - m.scale() > 5000) return m.signum() > 0 ? BigDecimal.ONE.scaleByPowerOfTen(6000) : BigDecimal.ONE.scaleByPowerOfTen(6000).negate();
        return m.scaleByPowerOfTen(ex.intValue());
    }
    static BigDecimal dec(Value v) {
        String s = str(v);
        if (!isNumeral(s)) throw new RuntimeException("HsOverrides: not a numeral: " + s);
        return big(s);
    }
    static Value num(BigDecimal d) {
        String s = d.stripTrailingZeros().toPlainString();
        return cps(s);
    }

    // ---- rounding -----------------------------------------------------
    /** exact rounding test: does real x round (nearest-even) to double d? */
    static boolean roundsTo(BigDecimal x, long b) {
        double d = Double.longBitsToDouble(b);
        if (Double.isNaN(d)) return false;
        boolean neg = (b >>> 63) != 0;
        // sign must agree (zero: sign of the numeral is not visible in x; accept both zeros)
        BigDecimal ax = x.abs();
        if (x.signum() != 0 && (x.signum() < 0) != neg) {
            return false;
        }
        double ad = Math.abs(d);
        BigDecimal max = new BigDecimal(Double.MAX_VALUE);
        BigDecimal halfUlpMax = new BigDecimal(Math.ulp(Double.MAX_VALUE)).divide(BigDecimal.valueOf(2));
        BigDecimal overflow = max.add(halfUlpMax); // >= this rounds to infinity (tie goes to even = infinity)
        if (Double.isInfinite(ad)) return ax.compareTo(overflow) >= 0;
        if (ax.compareTo(overflow) >= 0) return false;
        BigDecimal bd = new BigDecimal(ad);
        long mant = Double.doubleToRawLongBits(ad);
        boolean even = (mant & 1L) == 0;
        // upper midpoint
        double up = Math.nextUp(ad);
        BigDecimal hiMid = Double.isInfinite(up) ? overflow : bd.add(new BigDecimal(up)).divide(BigDecimal.valueOf(2));
        int ch = ax.compareTo(hiMid);
        if (ch > 0 || (ch == 0 && !even)) return false;
        if (ad == 0.0) return true;
        double dn = Math.nextDown(ad);
        BigDecimal loMid = bd.add(new BigDecimal(dn)).divide(BigDecimal.valueOf(2));
        int cl = ax.compareTo(loMid);
        if (cl < 0 || (cl == 0 && !even)) return false;
        return true;
    }

    @TLAPlusOperator(identifier = "RoundsToF64", module = "HsNum", warn = false)
    public static Value roundsToF64(final Value numeral, final Value bitsV) {
        String s = str(numeral);
        if (!isNumeral(s)) return BoolValue.ValFalse;
        return roundsTo(big(s), bits(bitsV)) ? BoolValue.ValTrue : BoolValue.ValFalse;
    }

    @TLAPlusOperator(identifier = "F64OfNumeral", module = "HsNum", warn = false)
    public static Value f64OfNumeral(final Value numeral) {
        String s = str(numeral);
        if (!isNumeral(s)) throw new RuntimeException("HsOverrides: not a numeral: " + s);
        BigDecimal x = big(s);
        double d = x.doubleValue();
        long b = Double.doubleToRawLongBits(d);
        // self-check from first principles; try neighbours if the JDK parser were ever off
        if (!roundsTo(x, b)) {
            long[] cand = { Double.doubleToRawLongBits(Math.nextUp(d)), Double.doubleToRawLongBits(Math.nextDown(d)) };
            boolean ok = false;
            for (long c : cand) if (roundsTo(x, c)) { b = c; ok = true; break; }
            if (!ok) throw new RuntimeException("HsOverrides: cannot round " + s);
        }
        if (s.startsWith("-") && d == 0.0) b = 0x8000000000000000L;
        return hex(b);
    }

    @TLAPlusOperator(identifier = "ExactOfF64", module = "HsNum", warn = false)
    public static Value exactOfF64(final Value bitsV) {
        double d = Double.longBitsToDouble(bits(bitsV));
        if (Double.isNaN(d) || Double.isInfinite(d)) throw new RuntimeException("HsOverrides: ExactOfF64 of non-finite");
        String s = new BigDecimal(d).toPlainString();
        if (d == 0.0 && (bits(bitsV) >>> 63) != 0) s = "-0";
        return cps(s);
    }

    @TLAPlusOperator(identifier = "F64Class", module = "HsNum", warn = false)
    public static Value f64Class(final Value bitsV) {
        double d = Double.longBitsToDouble(bits(bitsV));
        if (Double.isNaN(d)) return new StringValue("nan");
        if (d == Double.POSITIVE_INFINITY) return new StringValue("pinf");
        if (d == Double.NEGATIVE_INFINITY) return new StringValue("ninf");
        return new StringValue("fin");
    }

    @TLAPlusOperator(identifier = "F64Cmp", module = "HsNum", warn = false)
    public static Value f64Cmp(final Value a, final Value b) {
        double x = Double.longBitsToDouble(bits(a)), y = Double.longBitsToDouble(bits(b));
        if (Double.isNaN(x) || Double.isNaN(y)) return IntValue.gen(2);
        return IntValue.gen(x < y ? -1 : (x == y ? 0 : 1));
    }

    @TLAPlusOperator(identifier = "F64Arith", module = "HsNum", warn = false)
    public static Value f64Arith(final Value op, final Value a, final Value b) {
        double x = Double.longBitsToDouble(bits(a)), y = Double.longBitsToDouble(bits(b));
        String o = str(op);
        double r;
        switch (o) {
            case "add": r = x + y; break;
            case "sub": r = x - y; break;
            case "mul": r = x * y; break;
            case "div": r = x / y; break;
            default: throw new RuntimeException("HsOverrides: bad op " + o);
        }
        return hex(Double.doubleToRawLongBits(r));
    }

    @TLAPlusOperator(identifier = "DecCmp", module = "HsNum", warn = false)
    public static Value decCmp(final Value a, final Value b) { return IntValue.gen(dec(a).compareTo(dec(b))); }
    @TLAPlusOperator(identifier = "DecAdd", module = "HsNum", warn = false)
    public static Value decAdd(final Value a, final Value b) { return num(dec(a).add(dec(b))); }
    @TLAPlusOperator(identifier = "DecSub", module = "HsNum", warn = false)
    public static Value decSub(final Value a, final Value b) { return num(dec(a).subtract(dec(b))); }
    @TLAPlusOperator(identifier = "DecMul", module = "HsNum", warn = false)
    public static Value decMul(final Value a, final Value b) { return num(dec(a).multiply(dec(b))); }
    @TLAPlusOperator(identifier = "DecDiv", module = "HsNum", warn = false)
    public static Value decDiv(final Value a, final Value b) { return num(dec(a).divide(dec(b), new MathContext(60))); }
    @TLAPlusOperator(identifier = "DecWithin", module = "HsNum", warn = false)
    public static Value decWithin(final Value a, final Value b, final Value tol) {
        BigDecimal x = dec(a), y = dec(b), t = dec(tol);
        BigDecimal bound = t.multiply(y.abs().max(BigDecimal.ONE));
        return x.subtract(y).abs().compareTo(bound) <= 0 ? BoolValue.ValTrue : BoolValue.ValFalse;
    }
    @TLAPlusOperator(identifier = "IsNumeral", module = "HsNum", warn = false)
    public static Value isNumeralOp(final Value s) { return isNumeral(str(s)) ? BoolValue.ValTrue : BoolValue.ValFalse; }
    @TLAPlusOperator(identifier = "CodePoints", module = "HsNum", warn = false)
    public static Value codePoints(final Value s) { return cps(str(s)); }
    @TLAPlusOperator(identifier = "StringOf", module = "HsNum", warn = false)
    public static Value stringOf(final Value s) { return new StringValue(str(s)); }
    @TLAPlusOperator(identifier = "IntToCps", module = "HsNum", warn = false)
    public static Value intToCps(final Value i) { return cps(Integer.toString(((IntValue) i).val)); }
}

------------------------------ MODULE MC_Defs ------------------------------
(***************************************************************************)
(* Small defs grids: every combination of presence and `is` list (from a    *)
(* per-def menu with diamonds, undefined supertypes, conjuncts, a feature   *)
(* key, a choice) over the names a b c d a-b a-c k:x choice.  TLC checks     *)
(* graph theorems on each (closures are closed, fits is reflexive on        *)
(* defined defs and transitive, sub/sup are converse) and emits the grid.   *)
(***************************************************************************)
EXTENDS Defs, TLC, Json

CONSTANTS Small
VARIABLES rows, i
vars == <<rows, i>>
T(s) == CodePoints(s)
A == T("a")  B == T("b")  C == T("c")  D == T("d")  AB == T("a-b")  AC == T("a-c")  KX == T("k:x")  CH == T("choice")  U == T("u")

Menu == << <<A,  {<<>>, <<CH>>}>>,
           <<B,  {<<>>, <<A>>, <<U>>}>>,
           <<C,  {<<>>, <<A>>, <<A, B>>}>>,
           <<D,  {<<B, C>>, <<C, U>>}>>,
           <<AB, {<<A>>, <<D>>}>>,
           <<AC, {<<A, C>>}>>,
           <<KX, {<<>>, <<C>>}>>,
           <<CH, {<<>>}>> >>

\* one row per present def, in menu order: built row by row so that TLC's workers share the states
Init == rows = <<>> /\ i = 1
Next == /\ i <= Len(Menu)
        /\ i' = i + 1
        /\ \/ rows' = rows
           \/ \E is \in Menu[i][2] : (Small => i \notin {2, 7}) /\ rows' = Append(rows, <<Menu[i][1], is>>)
Spec == Init /\ [][Next]_vars

db == DbOf(rows)
Syms == {A, B, C, D, AB, AC, KX, CH, U}
GraphLaws == i = Len(Menu) + 1 =>
    /\ Acyclic(db)
    /\ \A x \in Syms : AllSup(db, x) \subseteq DOMAIN db
    /\ \A x \in Syms : \A y \in AllSup(db, x) : AllSup(db, y) \subseteq AllSup(db, x)          \* closed upwards
    /\ \A x, y \in Syms : (y \in Sup(db, x)) <=> (x \in Sub(db, y) /\ y \in DOMAIN db)         \* sub / sup converse
    /\ \A x, y \in Syms : (x \in DOMAIN db /\ y \in AllSup(db, x)) <=> (y \in DOMAIN db /\ x \in AllSub(db, y))
    /\ \A x \in DOMAIN db : Fits(db, x, x)
    /\ \A x, y, z \in Syms : Fits(db, x, y) /\ Fits(db, y, z) => Fits(db, x, z)
    /\ \A x \in Syms \ DOMAIN db, y \in Syms : ~Fits(db, x, y) /\ ~Fits(db, y, x)
Emit == i = Len(Menu) + 1 => PrintT("VEC " \o ToJson([op |-> "defs.small", rows |-> rows]))
=============================================================================

---------------------------- MODULE HsUniverse ----------------------------
(***************************************************************************)
(* The small-scope universe of well-formed values shared by the model       *)
(* checking instances: a set of scalars chosen to hit every branch of every *)
(* escape table / number spelling / zone class, and the wrap forms by which *)
(* constructor actions nest values into lists, dicts and grids (cell, grid  *)
(* meta, column meta, Null cell, missing cell, empty row, zero rows).       *)
(***************************************************************************)
EXTENDS Zinc

T(s) == CodePoints(s)
N(s, u) == [k |-> "num", bits |-> F64OfNumeral(T(s)), unit |-> u, numeral |-> T(s)]

\* alphabet hitting every branch of every escape table
Chars == {97, 32, 34, 92, 36, 96, 10, 9, 13, 8, 12, 31, 0, 233, 8364, 128512, 39, 127}
Texts == {<<>>} \cup {<<c>> : c \in Chars}
         \cup {<<92, 34>>, <<36, 123>>, <<92, 117>>, <<34, 34>>, <<97, 10>>, <<128512, 233>>, <<92, 92>>, <<96, 96>>}
         \* texts that look like literals of this or a neighbouring encoding (Haystack 3 JSON prefixes, Zinc scalars, JSON
         \* keywords): a string is a string whatever it spells
         \cup {T("s:x"), T("m:"), T("-:"), T("z:"), T("n:1"), T("r:a"), T("u:x"), T("d:2021-01-15"), T("c:1,2"), T("x:Bin:y"),
               T("@a"), T("^a"), T("N"), T("T"), T("NA"), T("M"), T("2021-01-15"), T("12:30:00"), T("C(1,2)"), T("1kW"),
               T("null"), T("true"), T("INF"), T("NaN"), T("{}"), T("[]")}
UriTexts == {s \in Texts : NoControls(s)} \cup {T("http://a/b?c=d&e#f"), T("a[1]@x;y")}

Units == {<<>>, <<T("m")>>, <<<<176, 70>>>>, <<T("%")>>, <<T("$")>>, <<<<107, 87, 104, 47, 109, 178>>>>, <<T("ft/min")>>}
PlainNumerals == {"0", "-0", "1", "-1.5", "0.1", "123456789.123", "1000000000000000000000",
                  "0.30000000000000004", "48.85837009999999", "0.3333333333333333",      \* 16-17 significant digits
                  "9007199254740993", "0.0000001", "-12", "100",
                  \* the edges of the 64-bit integer types (integer fast paths of writers and readers)
                  "9223372036854775807", "9223372036854775808", "18446744073709551615", "18446744073709551616",
                  "-9223372036854775808", "-9223372036854775809"}
ExpNumerals == {"5e-324", "1.7976931348623157e308", "1e-7", "2.5E+10"}

\* day numbers
Day(y, m, dd) == DaysFromCivil(y, m, dd)
DT(y, m, dd, sod, ns, off, tz) == DateTime(Day(y, m, dd), sod, ns, off, T(tz))

Scalars ==
    {Null, Marker, Remove, NA, Bool(TRUE), Bool(FALSE)}
    \cup {N(n, <<>>) : n \in PlainNumerals \cup ExpNumerals}
    \cup {N(n, u) : n \in {"1", "-1.5", "1000000000000000000000"}, u \in Units}
    \cup {[k |-> "num", bits |-> "0x7ff8000000000000", unit |-> <<>>],
          [k |-> "num", bits |-> "0x7ff0000000000000", unit |-> <<>>],
          [k |-> "num", bits |-> "0xfff0000000000000", unit |-> <<>>]}
    \cup {Str(s) : s \in Texts}
    \cup {Uri(s) : s \in UriTexts}
    \cup {Ref(T("a"), <<>>), Ref(T("a-b:c.d~e_1"), <<>>), Ref(T("1z"), <<T("x y")>>), Ref(T("p:q"), <<<<>>>>)}
    \cup {Ref(T("r"), <<s>>) : s \in {<<34>>, <<92>>, <<36>>, <<10>>, <<233>>, <<128512>>}}
    \* a component that coincides with its sibling (a shortcut "same as ... : omit" must not fire)
    \cup {Ref(T("r"), <<T("r")>>), Ref(T("ahu-1"), <<T("ahu-1")>>), XStr(T("Bin"), T("Bin")), Dict(<<<<T("a"), Str(T("a"))>>>>),
          Coord(F64OfNumeral(T("12.5")), F64OfNumeral(T("12.5")))}
    \cup {Symbol(T("a")), Symbol(T("a-b")), Symbol(T("lib:ph")), Symbol(T("a.b_c~1"))}
    \cup {XStr(T("Bin"), s) : s \in {<<>>, T("text/plain"), <<34>>, <<92>>, <<10>>, <<128512>>}}
    \cup {XStr(T("X_1a"), T("v"))}
    \* XStr types spelled like the one-word scalars of the grammar (T F M N R NA NaN INF, C as in Coord): `T("x")` is an XStr
    \cup {XStr(T(ty), T("x")) : ty \in {"T", "F", "M", "N", "R", "NA", "NaN", "INF", "C", "Z"}}
    \cup {Date(0, 1, 1), Date(2021, 2, 28), Date(2020, 2, 29), Date(9999, 12, 31)}
    \cup {Time(0, 0, 0, 0), Time(23, 59, 59, 0), Time(12, 30, 15, 500000000), Time(1, 2, 3, 123000000),
          Time(1, 2, 3, 123456000), Time(1, 2, 3, 123456789), Time(1, 2, 3, 1), Time(17, 25, 33, 50000000), Time(8, 0, 0, 7000), Time(8, 0, 0, 10000001)}
    \cup {DT(2021, 6, 15, 43200, 0, 0, "UTC"),
          DT(2021, 1, 15, 43200, 0, -18000, "New_York"),
          DT(2021, 7, 15, 43200, 500000000, -14400, "New_York"),
          DT(2021, 11, 7, 21599, 0, -14400, "New_York"),       \* 01:59:59 EDT, first pass of the repeated hour
          DT(2021, 11, 7, 21600, 0, -18000, "New_York"),       \* 01:00:00 EST, second pass
          DT(2021, 3, 14, 25200, 0, -14400, "New_York"),       \* first instant after the skipped hour
          DT(2021, 1, 15, 43200, 123456789, 19800, "Kolkata"),
          DT(2021, 1, 15, 43200, 0, 20700, "Kathmandu"),
          DT(2021, 1, 15, 43200, 0, 39600, "Sydney"),
          DT(2021, 7, 15, 43200, 0, 36000, "Sydney"),
          DT(2021, 1, 15, 43200, 0, 50400, "Kiritimati"),
          DT(2021, 1, 15, 43200, 0, 0, "London"),
          DT(2021, 7, 15, 43200, 0, 3600, "London"),
          DT(2021, 1, 15, 43200, 0, -43200, "GMT+12"),
          DT(2021, 1, 15, 43200, 250000000, -12600, "St_Johns"),      \* negative offsets with minutes
          DT(2021, 1, 15, 43200, 0, -34200, "Marquesas"),
          DT(2021, 6, 1, 34200, 0, 32400, "Japan"),                   \* zone ids without a region
          DT(2021, 6, 1, 34200, 0, -18000, "EST"),
          DT(2021, 1, 15, 43200, 0, -10800, "Argentina/Buenos_Aires"),   \* three-segment ids keep two segments as their name
          DT(2021, 7, 15, 43200, 0, -18000, "North_Dakota/Center"),
          DT(1999, 12, 31, 86399, 999000000, 0, "UTC"),
          DT(2021, 12, 31, 50400, 0, 36000, "Brisbane"),       \* local date is the next year
          \* the fraction family: the first non-zero digit of the fraction at several positions, zeros inside
          DT(2021, 6, 15, 37230, 45000000, -14400, "New_York"), DT(2021, 6, 15, 37230, 1, 0, "UTC"),
          DT(2021, 6, 15, 37230, 7000, 3600, "London"), DT(2021, 6, 15, 37230, 10000001, 0, "UTC"),
          \* zones that are other names of UTC keep their own name
          DT(2021, 6, 15, 45000, 0, 0, "GMT"), DT(2021, 6, 15, 45000, 0, 0, "Zulu")}
    \cup {Coord("0x0000000000000000", "0x0000000000000000"),
          Coord(F64OfNumeral(T("37.545")), F64OfNumeral(T("-77.449"))),
          Coord(F64OfNumeral(T("-90")), F64OfNumeral(T("180"))), Coord(F64OfNumeral(T("90")), F64OfNumeral(T("-180"))),
          Coord(F64OfNumeral(T("37.5458266")), F64OfNumeral(T("-77.4491888"))),         \* more than six fraction digits
          Coord(F64OfNumeral(T("0.0000004")), F64OfNumeral(T("48.85837009999999")))}
    \cup {List(<<>>), Dict(<<>>)}

a == T("a")
b == T("b")
One == N("1", <<>>)

Wraps(x) ==
    { List(<<x>>), List(<<x, Str(T("x"))>>), List(<<Null, x>>),
      Dict(<<<<a, x>>>>), Dict(<<<<a, Marker>>, <<b, x>>>>), Dict(<<<<a, x>>, <<b, One>>>>),
      Grid(T("3.0"), <<>>, <<Col(a, <<>>)>>, <<<<<<a, x>>>>>>),
      Grid(T("3.0"), <<<<T("m"), x>>>>, <<Col(a, <<>>)>>, <<>>),
      Grid(T("3.0"), <<>>, <<Col(a, <<<<T("cm"), x>>>>), Col(b, <<>>)>>, <<<<<<a, One>>>>>>),
      Grid(T("3.0"), <<>>, <<Col(a, <<>>), Col(b, <<>>)>>, <<<<<<b, x>>>>, <<<<a, x>>, <<b, Null>>>>, <<>>>>),
      Grid(T("3.0"), <<<<T("m"), Marker>>, <<T("n"), x>>>>, <<Col(a, <<>>)>>, <<<<<<a, Marker>>>>>>) }

\* Name family: tags, columns and meta tags named like the members the codecs themselves use (Hayson's val / unit / meta /
\* cols / rows / ver / dis / tz / lat / lng / type / name / kind, Zinc's ver), in every place a name can stand, and the
\* kind-less dicts that look like a Hayson scalar object. They enter the universes at depth MaxDepth (never wrapped).
CodecNames == {T("ver"), T("meta"), T("cols"), T("rows"), T("val"), T("unit"), T("name"), T("dis"), T("tz"), T("lat"), T("lng"),
               T("type"), T("kind"), T("id"), T("def"), T("is"), T("empty")}
NameFamily ==
    {Dict(<<<<nm, One>>>>) : nm \in CodecNames}
    \cup {Dict(<<<<nm, Str(T("x"))>>>>) : nm \in CodecNames}
    \cup {Grid(T("3.0"), <<>>, <<Col(a, <<<<nm, One>>>>)>>, <<<<<<a, One>>>>>>) : nm \in CodecNames}
    \cup {Grid(T("3.0"), <<>>, <<Col(nm, <<>>)>>, <<<<<<nm, Str(T("x"))>>>>>>) : nm \in CodecNames}
    \cup {Grid(T("3.0"), <<<<nm, Marker>>>>, <<Col(a, <<>>)>>, <<>>) : nm \in CodecNames \ {T("ver")}}
    \cup {Dict(<<<<T("unit"), Str(T("m"))>>, <<T("val"), One>>>>), Dict(<<<<T("lat"), One>>, <<T("lng"), One>>>>),
          Dict(<<<<T("type"), Str(T("Bin"))>>, <<T("val"), Str(T("y"))>>>>), Dict(<<<<T("dis"), Str(T("d"))>>, <<T("val"), Str(T("x"))>>>>),
          Dict(<<<<T("tz"), Str(T("UTC"))>>, <<T("val"), Str(T("2021-01-01T00:00:00Z"))>>>>),
          Dict(<<<<T("cols"), List(<<>>)>>, <<T("meta"), Dict(<<>>)>>, <<T("rows"), List(<<>>)>>>>),
          Dict(<<<<T("kind"), Str(T("number"))>>, <<T("val"), One>>>>)}
    \* grids of another format version (the version is a component of the value like any other)
    \cup {Grid(T("2.0"), <<>>, <<Col(a, <<>>)>>, <<<<<<a, One>>>>>>), Grid(T("2.0"), <<<<T("m"), One>>>>, <<Col(a, <<>>)>>, <<>>),
          Grid(<<>>, <<>>, <<Col(a, <<>>)>>, <<>>), Grid(<<51, 34, 233>>, <<>>, <<Col(a, <<>>)>>, <<>>)}

AllUnits == {u[1] : u \in Units \ {<<>>}}
=============================================================================

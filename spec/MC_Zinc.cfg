SPECIFICATION Spec
CONSTANTS
  MaxDepth = 1
  EmitVectors = TRUE
INVARIANTS WellFormed RoundTrip CanonIsPlain Emit
CHECK_DEADLOCK FALSE

------------------------------ MODULE MC_Kinds ------------------------------
(***************************************************************************)
(* Enumerates the finite spaces of C19: all u8 codes, kind names and near   *)
(* misses, the C12 value universe, and all lists of <= MaxRows records over *)
(* the keys a b c B e-acute (byte-order sorting visible).  TLC checks the   *)
(* specification's own tables (KindName is a bijection onto 18 names;       *)
(* GridFromDicts has sorted duplicate-free columns covering every row key). *)
(***************************************************************************)
EXTENDS Kinds, TLC, Json
CONSTANTS Mode, MaxRows
VARIABLES x
T(s) == CodePoints(s)
Keys == <<T("a"), T("b"), T("c"), T("B"), <<233>>>>
One == [k |-> "num", bits |-> "0x3ff0000000000000", unit |-> <<>>]
RECURSIVE RecOf(_, _)
RecOf(S, i) == IF i > Len(Keys) THEN <<>> ELSE (IF i \in S THEN TagsPut(RecOf(S, i + 1), Keys[i], IF i = 2 THEN Marker ELSE One) ELSE RecOf(S, i + 1))
Records == {RecOf(S, 1) : S \in SUBSET (1..Len(Keys))}
Names == KindNames \cup {"Null", "NUMBER", "datetime", "DateTime", "string", "", "numbe", "numberr", "kind"}
Init == CASE Mode = "code" -> x \in 0..255
          [] Mode = "name" -> x \in Names
          [] Mode = "rows" -> x = <<>>
Next == Mode = "rows" /\ Len(x) < MaxRows /\ \E r \in Records : x' = Append(x, r)
Spec == Init /\ [][Next]_x
TablesOk == /\ Cardinality(KindNames) = 18 /\ Cardinality(DOMAIN KindName) = 18
            /\ \A i \in 1..Len(KindSeq) : KindSeq[i] \in DOMAIN KindName
GridLaws == Mode = "rows" =>
    LET g == GridFromDicts(x, <<>>) IN
    /\ g.rows = x
    /\ \A i \in 1..(Len(g.cols) - 1) : TextCmp(g.cols[i].name, g.cols[i + 1].name) = -1
    /\ \A r \in 1..Len(x) : \A t \in 1..Len(x[r]) : \E c \in 1..Len(g.cols) : g.cols[c].name = x[r][t][1]
    /\ \A c \in 1..Len(g.cols) : \E r \in 1..Len(x) : TagsHas(x[r], g.cols[c].name)
Emit == CASE Mode = "code" -> PrintT("VEC " \o ToJson([op |-> "kind.code", code |-> x]))
          [] Mode = "name" -> PrintT("VEC " \o ToJson([op |-> "kind.name", name |-> x]))
          [] Mode = "rows" -> PrintT("VEC " \o ToJson([op |-> "kind.grid", rows |-> x]))
=============================================================================

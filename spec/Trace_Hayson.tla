---------------------------- MODULE Trace_Hayson ----------------------------
(***************************************************************************)
(* Validates recorded Hayson executions of libhaystack against Hayson.tla   *)
(*  hayson.rt   : libhaystack serialised v (to_string / to_vec / to_value)   *)
(*                and deserialised through from_str / from_slice /          *)
(*                from_value and the typed Deserialize of the payload;      *)
(*                backs = the distinct results with the combinations that   *)
(*                produced them; tree = JSON tree of the to_string text     *)
(*      C02  every combination: outcome = ok /\ Same(back, v)               *)
(*      C05  tree is the Hayson representation of v                         *)
(*  hayson.read : the spec writer produced tree for v, libhaystack read it  *)
(*      C05  outcome = ok /\ Same(back, v)                                  *)
(***************************************************************************)
EXTENDS Hayson, TraceBase

VARIABLES l, nbad

RECURSIVE CheckBacks(_, _, _)
CheckBacks(e, bs, i) ==
    IF i > Len(bs) THEN <<>>
    ELSE LET b == bs[i] IN
         Need(b.outcome \notin {"panic", "encpanic"}, "C10", <<"panic", b.combos, b.msg>>)
         \o Need(b.outcome = "ok", "C02", <<"encode/decode failed", b.combos, b.outcome, b.msg>>)
         \o (IF b.outcome = "ok" THEN Need(Same(b.back, e.v), "C02", <<b.combos>> \o Diff(e.v, b.back)) ELSE <<>>)
         \o CheckBacks(e, bs, i + 1)

CheckRt(e) ==
    Need(e.outcome # "encpanic", "C10", <<"panic", e.msg>>)
    \o Need(e.outcome = "ok", "C02", <<"serialisation failed", e.outcome, e.msg>>)
    \o (IF e.outcome = "ok"
        THEN CheckBacks(e, e.backs, 1)
             \o Need(HaysonDenotes(e.tree, e.v), "C05", <<"written JSON">> \o HaysonWhyNot(e.tree, e.v))
        ELSE <<>>)

CheckRead(e) ==
    IF ~HaysonDenotes(e.tree, e.v) THEN <<<<"SPEC", <<"spec writer/reader disagree">> \o HaysonWhyNot(e.tree, e.v)>>>>
    ELSE Need(e.outcome # "panic", "C03", <<"panic", e.msg>>)
         \o Need(e.outcome = "ok", "C05", <<"document rejected", e.st, e.msg>>)
         \o (IF e.outcome = "ok" THEN Need(Same(e.back, e.v), "C05", <<"document misread", e.st>> \o Diff(e.v, e.back)) ELSE <<>>)

Check(e) == CASE e.op = "hayson.rt" -> CheckRt(e)
              [] e.op = "hayson.read" -> CheckRead(e)
              [] OTHER -> <<<<"SPEC", <<"unknown op", e.op>>>>>>

Init == l = 1 /\ nbad = 0
Next == \/ /\ l <= Len(Rec)
           /\ LET r == Check(Rec[l]) IN Report(Rec[l].i, r, 1) /\ nbad' = nbad + Len(r)
           /\ l' = l + 1
        \/ /\ l = Len(Rec) + 1
           /\ PrintT("CONSUMED " \o ToString(Len(Rec)) \o " " \o ToString(nbad))
           /\ l' = l + 1 /\ nbad' = nbad
Spec == Init /\ [][Next]_<<l, nbad>>
=============================================================================

----------------------------- MODULE Trace_Time -----------------------------
(***************************************************************************)
(* Validates recorded time executions of libhaystack against HsTime.tla     *)
(* (property C06).                                                          *)
(*  time.parse : a DateTime built from RFC 3339 text (three entry points)   *)
(*       is rejected or denotes exactly the instant the text denotes - the  *)
(*       instant is computed here from the civil fields and offset in the   *)
(*       text (Gregorian arithmetic in TLA+, independent of chrono)         *)
(*  time.make  : a DateTime built from an instant and a zone name denotes   *)
(*       that instant in that zone (zone name as requested, offset = the    *)
(*       tz database's offset logged by the harness from chrono-tz          *)
(*       directly); same through parse_from_rfc3339_with_timezone; writing  *)
(*       it as Zinc / Hayson and reading it back gives the same instant,    *)
(*       offset and zone name; the Zinc text is also read by the spec.      *)
(***************************************************************************)
EXTENDS HsTime, TraceBase

VARIABLES l, nbad

RECURSIVE CheckParse(_, _, _)
CheckParse(e, rs, i) ==
    IF i > Len(rs) THEN <<>>
    ELSE LET r == rs[i]
             t == ReadRfc3339(e.text)
         IN (IF ~t.ok THEN <<<<"SPEC", <<"spec cannot read its own RFC 3339 text">>>>>>
             ELSE Need(r.outcome # "panic", "C06", <<"panic", r.api, r.msg>>)
                  \o (IF r.outcome = "ok"
                      THEN Need(r.back.k = "dt" /\ SameInstant(r.back, InstantOf(t.v)), "C06",
                                <<"instant changed", r.api, StringOf(e.text)>>)
                      ELSE <<>>))
            \o CheckParse(e, rs, i + 1)

ZoneOk(b, e) == b.k = "dt" /\ b.day = e.day /\ b.sod = e.sod /\ b.ns = e.ns /\ b.tz = e.tz /\ b.off = e.oracle_off

CheckMake(e) ==
    LET z == StringOf(e.tz) IN
    Need(e.made.outcome = "ok", "C06", <<"instant + zone name rejected", z, e.made.outcome, e.made.msg>>)
    \o (IF e.made.outcome = "ok" THEN Need(ZoneOk(e.made.back, e), "C06", <<"instant + zone name", z>>) ELSE <<>>)
    \o (LET t == ReadRfc3339(e.parsetz.text) IN
        IF ~t.ok THEN <<<<"SPEC", <<"harness text is not RFC 3339">>>>>>
        ELSE IF InstantOf(t.v) # [day |-> e.day, sod |-> e.sod, ns |-> e.ns]
             THEN <<<<"SPEC", <<"harness text denotes another instant than logged">>>>>>
        ELSE Need(e.parsetz.outcome = "ok", "C06", <<"rfc3339 + zone name rejected", z, e.parsetz.msg>>)
             \o (IF e.parsetz.outcome = "ok" THEN Need(ZoneOk(e.parsetz.back, e), "C06", <<"rfc3339 + zone name", z>>) ELSE <<>>))
    \o (IF e.made.outcome # "ok" THEN <<>>
        ELSE Need(e.zinc.outcome = "ok", "C06", <<"zinc round trip failed", z, e.zinc.msg>>)
             \o (IF e.zinc.outcome = "ok"
                 THEN Need(Same(e.zinc.back, e.made.back), "C06", <<"zinc round trip", z>> \o Diff(e.made.back, e.zinc.back))
                      \o Need(ZincDenotes(e.zinc.text, e.made.back), "C06", <<"zinc text", z>> \o ZincWhyNot(e.zinc.text, e.made.back))
                 ELSE <<>>)
             \o Need(e.json.outcome = "ok", "C06", <<"hayson round trip failed", z, e.json.msg>>)
             \o (IF e.json.outcome = "ok"
                 THEN Need(Same(e.json.back, e.made.back), "C06", <<"hayson round trip", z>> \o Diff(e.made.back, e.json.back))
                 ELSE <<>>))

Check(e) == CASE e.op = "time.parse" -> CheckParse(e, e.results, 1)
              [] e.op = "time.make" -> CheckMake(e)
              [] OTHER -> <<<<"SPEC", <<"unknown op", e.op>>>>>>

Init == l = 1 /\ nbad = 0
Next == \/ /\ l <= Len(Rec)
           /\ LET r == Check(Rec[l]) IN Report(Rec[l].i, r, 1) /\ nbad' = nbad + Len(r)
           /\ l' = l + 1
        \/ /\ l = Len(Rec) + 1
           /\ PrintT("CONSUMED " \o ToString(Len(Rec)) \o " " \o ToString(nbad))
           /\ l' = l + 1 /\ nbad' = nbad
Spec == Init /\ [][Next]_<<l, nbad>>
=============================================================================

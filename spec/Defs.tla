-------------------------------- MODULE Defs --------------------------------
(***************************************************************************)
(* The def taxonomy (docHaystack/Defs, Subtyping, Reflection) as a graph.   *)
(* db is a function  def name |-> set of the symbol names in its `is` list  *)
(* (names are code point sequences).  All answers are sets of def names.    *)
(***************************************************************************)
EXTENDS Zinc

Defined(db) == DOMAIN db
IsOf(db, d) == IF d \in DOMAIN db THEN db[d] ELSE {}
\* direct supertypes: the defined symbols of the `is` list
Sup(db, d) == {s \in IsOf(db, d) : s \in DOMAIN db}
\* direct subtypes of any symbol (defined or not): the defs that list it
Sub(db, s) == {d \in DOMAIN db : s \in db[d]}

RECURSIVE ClosureUp(_, _, _)
ClosureUp(db, frontier, acc) ==
    LET nxt == (UNION {Sup(db, d) : d \in frontier}) \ acc IN
    IF nxt = {} THEN acc ELSE ClosureUp(db, nxt, acc \cup nxt)
AllSup(db, d) == ClosureUp(db, {d}, {})            \* transitive supertypes (d itself only if on a cycle)

RECURSIVE ClosureDown(_, _, _)
ClosureDown(db, frontier, acc) ==
    LET nxt == (UNION {Sub(db, d) : d \in frontier}) \ acc IN
    IF nxt = {} THEN acc ELSE ClosureDown(db, nxt, acc \cup nxt)
AllSub(db, s) == ClosureDown(db, {s}, {})

Inh(db, d) == IF d \in DOMAIN db THEN {d} \cup AllSup(db, d) ELSE {}
Fits(db, x, base) == base \in DOMAIN db /\ base \in Inh(db, x)

Choice == <<99, 104, 111, 105, 99, 101>>
IsChoice(db, d) == Choice \in IsOf(db, d)
ChoicesFor(db, s) == IF s \in DOMAIN db /\ IsChoice(db, s) THEN Sub(db, s) ELSE {}

\* conjunct names: parts separated by "-"
RECURSIVE SplitOn(_, _, _, _)
SplitOn(s, c, i, cur) ==
    IF i > Len(s) THEN <<cur>>
    ELSE IF s[i] = c THEN <<cur>> \o SplitOn(s, c, i + 1, <<>>)
    ELSE SplitOn(s, c, i + 1, Append(cur, s[i]))
Parts_(name) == SplitOn(name, 45, 1, <<>>)
IsConjunct(name) == \E i \in 1..Len(name) : name[i] = 45
IsFeature(name) == \E i \in 1..Len(name) : name[i] = 58
ConjunctDefs(db, name) == {p \in {Parts_(name)[i] : i \in 1..Len(Parts_(name))} : p \in DOMAIN db}

\* reflection of a record (tags): defs of its tags, of every conjunct all of whose parts are marker tags of the
\* record, and all their supertypes
TagNamesOf(tags) == {tags[i][1] : i \in 1..Len(tags)}
MarkerTags(tags) == {tags[i][1] : i \in {j \in 1..Len(tags) : tags[j][2].k = "marker"}}
ReflectBase(db, tags) ==
    {n \in TagNamesOf(tags) : n \in DOMAIN db}
    \cup {c \in DOMAIN db : IsConjunct(c) /\ \A i \in 1..Len(Parts_(c)) : Parts_(c)[i] \in MarkerTags(tags)}
Reflect(db, tags) == LET b == ReflectBase(db, tags) IN b \cup UNION {AllSup(db, d) : d \in b}
ReflectFits(db, tags, s) == \E d \in Reflect(db, tags) : Fits(db, d, s)

\* build db from rows <<def name, <<is names>>>> (a later row with the same def wins, like a map insert)
DbOf(rows) ==
    LET names == {rows[i][1] : i \in 1..Len(rows)}
        last(n) == CHOOSE i \in 1..Len(rows) : rows[i][1] = n /\ \A j \in (i + 1)..Len(rows) : rows[j][1] # n
    IN [n \in names |-> {rows[last(n)][2][k] : k \in 1..Len(rows[last(n)][2])}]

(***************************************************************************)
(* Associations, implementation, entity type, indexes and prototypes        *)
(* (docHaystack/Associations, Defs#children; namespace.rs associations,     *)
(* find_reciprocal_associations, implementation, protos; reflection.rs      *)
(* compute_entity_type).  Beyond `is` a def carries other tags; at is a      *)
(* function  def name |-> [lists, listtags, markers, syms, children, flat]   *)
(*   lists    set of <<tag, symbol>>: the symbol entries of list-valued tags *)
(*   listtags set of the tags whose value is a list                          *)
(*   markers  set of the tags whose value is a marker                        *)
(*   syms     set of <<tag, symbol>>: symbol-valued tags                     *)
(*   children sequence of child prototypes (each a tags sequence), or        *)
(*            <<>> when the def has none; kids tells how children is spelt   *)
(*            ("none", "list", "str", "other")                               *)
(***************************************************************************)
N_(s) == CodePoints(s)
ListSyms(at, d, tag) == IF d \in DOMAIN at THEN {p[2] : p \in {q \in at[d].lists : q[1] = tag}} ELSE {}
HasMarkerTag(at, d, tag) == d \in DOMAIN at /\ tag \in at[d].markers
SymTag(at, d, tag) == IF d \in DOMAIN at THEN {p[2] : p \in {q \in at[d].syms : q[1] = tag}} ELSE {}
HasTag(at, d, tag) ==
    d \in DOMAIN at /\ (tag \in at[d].markers \/ tag \in at[d].listtags \/ tag \in at[d].others
                        \/ \E q \in at[d].syms : q[1] = tag)

\* namespace.rs associations(parent, association): the association must be a def that lists `association`
\* directly in its `is`; a plain association reads the parent's own list of that name; a computed one
\* (computedFromReciprocal + reciprocalOf r, r defined) collects every def one of whose r-targets is in the
\* parent's inheritance
Associations(db, at, parent, assoc) ==
    IF assoc \notin DOMAIN db \/ N_("association") \notin IsOf(db, assoc) THEN {}
    ELSE IF ~HasTag(at, assoc, N_("computedFromReciprocal"))
         THEN {s \in ListSyms(at, parent, assoc) : s \in DOMAIN db}
    ELSE LET rs == {r \in SymTag(at, assoc, N_("reciprocalOf")) : r \in DOMAIN db} IN
         IF rs = {} THEN {}
         ELSE LET r == CHOOSE x \in rs : TRUE
                  inh == Inh(db, parent)
              IN {d \in DOMAIN db : \E t \in ListSyms(at, d, r) : t \in DOMAIN db /\ t \in inh}

\* namespace.rs implementation(def): the parts of the name that are defs and no feature keys, plus every
\* mandatory transitive supertype of those
Implementation(db, at, d) ==
    LET base == {p \in ConjunctDefs(db, d) : ~IsFeature(p)} IN
    base \cup {s \in UNION {AllSup(db, p) : p \in base} : HasMarkerTag(at, s, N_("mandatory"))}

\* reflection.rs compute_entity_type: among the reflected defs that fit `entity`, one that no other of them
\* inherits from (the most specific); the empty def when there is none.  Which one of several unrelated most
\* specific entities is taken follows the order of the dicts and is left open here.
EntityCandidates(db, tags) ==
    LET ent == N_("entity")
        E == IF ent \in DOMAIN db THEN {d \in Reflect(db, tags) : ent \in Inh(db, d)} ELSE {}
    IN {d \in E : \A o \in E : o = d \/ d \notin Inh(db, o)}
EntityOk(db, tags, answer) ==
    LET c == EntityCandidates(db, tags) IN IF c = {} THEN answer = <<>> ELSE answer \in c

\* indexes built by Namespace::make
FeatureNames(db) ==
    LET pre(n) == LET i == CHOOSE k \in 1..Len(n) : n[k] = 58 /\ \A j \in 1..(k - 1) : n[j] # 58 IN SubSeq(n, 1, i - 1)
    IN {pre(d) : d \in {x \in DOMAIN db : IsFeature(x)}}
TagOnNames(at) == UNION {ListSyms(at, d, N_("tagOn")) : d \in DOMAIN at}
TagOnDefs(db, at, d) == {s \in ListSyms(at, d, N_("tagOn")) : s \in DOMAIN db}

\* namespace.rs protos(parent): for every tag of the parent that is a def with children, each child prototype
\* with the parent's non-null tags that fit one of the def's childrenFlatten symbols merged over it.  Children are
\* either a list of dicts, or text with one prototype per line - the tags of a Zinc dict without the braces; blank
\* lines, // comments, lines that are no Zinc and empty prototypes are skipped (misc.rs).
TagVal(tags, n) == LET i == CHOOSE k \in 1..Len(tags) : tags[k][1] = n IN tags[i][2]
DictOf(tags) == {<<tags[i][1], tags[i][2]>> : i \in 1..Len(tags)}
Flattened(db, at, d, ptags) ==
    {<<n, TagVal(ptags, n)>> : n \in {m \in TagNamesOf(ptags) :
        TagVal(ptags, m).k # "null" /\ \E f \in ListSyms(at, d, N_("childrenFlatten")) : Fits(db, m, f)}}
IsWs_(c) == c \in {32, 9, 13, 11, 12}
RECURSIVE TrimL_(_)
TrimL_(s) == IF s # <<>> /\ IsWs_(s[1]) THEN TrimL_(Tail(s)) ELSE s
RECURSIVE TrimR_(_)
TrimR_(s) == IF s # <<>> /\ IsWs_(s[Len(s)]) THEN TrimR_(SubSeq(s, 1, Len(s) - 1)) ELSE s
Trim_(s) == TrimR_(TrimL_(s))
\* the child prototypes of def d: [rv |-> is it a read value (numerals) or an abstract value, tags |-> its tags]
ChildrenOf(at, d) ==
    IF at[d].kids = "list" THEN {[rv |-> FALSE, tags |-> at[d].children[i]] : i \in 1..Len(at[d].children)}
    ELSE IF at[d].kids = "str" THEN
        LET ls == SplitOn(at[d].children, 10, 1, <<>>)
            good == {i \in 1..Len(ls) : LET t == Trim_(ls[i]) IN t # <<>> /\ ~(Len(t) >= 2 /\ t[1] = 47 /\ t[2] = 47)}
            parsed(i) == ZincRead(<<123>> \o Trim_(ls[i]) \o <<125>>)
        IN {[rv |-> TRUE, tags |-> parsed(i).v.tags] :
               i \in {j \in good : parsed(j).ok /\ parsed(j).v.k = "dict" /\ parsed(j).v.tags # <<>>}}
    ELSE {}
ExpectedProtos(db, at, ptags) ==
    UNION {{[c |-> ch, over |-> Flattened(db, at, d, ptags)] : ch \in ChildrenOf(at, d)}
           : d \in {n \in TagNamesOf(ptags) : n \in DOMAIN at}}
ProtoMatches(ans, e) ==
    LET A == DictOf(ans)
        C == DictOf(e.c.tags)
        keysO == {q[1] : q \in e.over}
    IN /\ {q[1] : q \in A} = keysO \cup {q[1] : q \in C}
       /\ \A q \in e.over : q \in A
       /\ \A q \in C : q[1] \in keysO \/ (IF e.c.rv THEN Denotes(q[2], TagVal(ans, q[1])) ELSE q \in A)
ProtosOk(db, at, ptags, answers) ==
    LET E == ExpectedProtos(db, at, ptags) IN
    /\ \A e \in E : \E i \in 1..Len(answers) : ProtoMatches(answers[i], e)
    /\ \A i \in 1..Len(answers) : \E e \in E : ProtoMatches(answers[i], e)

\* build at from rows <<name, lists, listtags, markers, syms, others, kids, children>> (later row wins)
AtOf(rows) ==
    LET names == {rows[i][1] : i \in 1..Len(rows)}
        last(n) == CHOOSE i \in 1..Len(rows) : rows[i][1] = n /\ \A j \in (i + 1)..Len(rows) : rows[j][1] # n
        S(q) == {q[k] : k \in 1..Len(q)}
    IN [n \in names |-> LET r == rows[last(n)] IN
            [lists |-> S(r[2]), listtags |-> S(r[3]), markers |-> S(r[4]), syms |-> S(r[5]), others |-> S(r[6]),
             kids |-> r[7], children |-> r[8]]]

Acyclic(db) == \A d \in DOMAIN db : d \notin AllSup(db, d)
=============================================================================

-------------------------------- MODULE Defs --------------------------------
(***************************************************************************)
(* The def taxonomy (docHaystack/Defs, Subtyping, Reflection) as a graph.   *)
(* db is a function  def name |-> set of the symbol names in its `is` list  *)
(* (names are code point sequences).  All answers are sets of def names.    *)
(***************************************************************************)
EXTENDS HsCore

Defined(db) == DOMAIN db
IsOf(db, d) == IF d \in DOMAIN db THEN db[d] ELSE {}
\* direct supertypes: the defined symbols of the `is` list
Sup(db, d) == {s \in IsOf(db, d) : s \in DOMAIN db}
\* direct subtypes of any symbol (defined or not): the defs that list it
Sub(db, s) == {d \in DOMAIN db : s \in db[d]}

RECURSIVE ClosureUp(_, _, _)
ClosureUp(db, frontier, acc) ==
    LET nxt == (UNION {Sup(db, d) : d \in frontier}) \ acc IN
    IF nxt = {} THEN acc ELSE ClosureUp(db, nxt, acc \cup nxt)
AllSup(db, d) == ClosureUp(db, {d}, {})            \* transitive supertypes (d itself only if on a cycle)

RECURSIVE ClosureDown(_, _, _)
ClosureDown(db, frontier, acc) ==
    LET nxt == (UNION {Sub(db, d) : d \in frontier}) \ acc IN
    IF nxt = {} THEN acc ELSE ClosureDown(db, nxt, acc \cup nxt)
AllSub(db, s) == ClosureDown(db, {s}, {})

Inh(db, d) == IF d \in DOMAIN db THEN {d} \cup AllSup(db, d) ELSE {}
Fits(db, x, base) == base \in DOMAIN db /\ base \in Inh(db, x)

Choice == <<99, 104, 111, 105, 99, 101>>
IsChoice(db, d) == Choice \in IsOf(db, d)
ChoicesFor(db, s) == IF s \in DOMAIN db /\ IsChoice(db, s) THEN Sub(db, s) ELSE {}

\* conjunct names: parts separated by "-"
RECURSIVE SplitOn(_, _, _, _)
SplitOn(s, c, i, cur) ==
    IF i > Len(s) THEN <<cur>>
    ELSE IF s[i] = c THEN <<cur>> \o SplitOn(s, c, i + 1, <<>>)
    ELSE SplitOn(s, c, i + 1, Append(cur, s[i]))
Parts_(name) == SplitOn(name, 45, 1, <<>>)
IsConjunct(name) == \E i \in 1..Len(name) : name[i] = 45
IsFeature(name) == \E i \in 1..Len(name) : name[i] = 58
ConjunctDefs(db, name) == {p \in {Parts_(name)[i] : i \in 1..Len(Parts_(name))} : p \in DOMAIN db}

\* reflection of a record (tags): defs of its tags, of every conjunct all of whose parts are marker tags of the
\* record, and all their supertypes
TagNamesOf(tags) == {tags[i][1] : i \in 1..Len(tags)}
MarkerTags(tags) == {tags[i][1] : i \in {j \in 1..Len(tags) : tags[j][2].k = "marker"}}
ReflectBase(db, tags) ==
    {n \in TagNamesOf(tags) : n \in DOMAIN db}
    \cup {c \in DOMAIN db : IsConjunct(c) /\ \A i \in 1..Len(Parts_(c)) : Parts_(c)[i] \in MarkerTags(tags)}
Reflect(db, tags) == LET b == ReflectBase(db, tags) IN b \cup UNION {AllSup(db, d) : d \in b}
ReflectFits(db, tags, s) == \E d \in Reflect(db, tags) : Fits(db, d, s)

\* build db from rows <<def name, <<is names>>>> (a later row with the same def wins, like a map insert)
DbOf(rows) ==
    LET names == {rows[i][1] : i \in 1..Len(rows)}
        last(n) == CHOOSE i \in 1..Len(rows) : rows[i][1] = n /\ \A j \in (i + 1)..Len(rows) : rows[j][1] # n
    IN [n \in names |-> {rows[last(n)][2][k] : k \in 1..Len(rows[last(n)][2])}]

Acyclic(db) == \A d \in DOMAIN db : d \notin AllSup(db, d)
=============================================================================

----------------------------- MODULE Trace_Defs -----------------------------
(***************************************************************************)
(* Validates recorded namespace queries against Defs.tla (property C13;     *)
(* the per-thread / per-history events of C14 reuse CheckQuery).            *)
(* The trace is stateful: a defs.load event carries the defs grid projected *)
(* to (def, symbols of is); later events are judged against that graph.     *)
(*   defs.q       answers of every taxonomy query for one symbol            *)
(*   defs.reflect reflection of a record: defs, fits, ^symbol filter        *)
(***************************************************************************)
EXTENDS Defs, TraceBase

VARIABLES l, nbad, db

SetOf(seq) == {seq[i] : i \in 1..Len(seq)}
NoDup(seq) == \A i, j \in 1..Len(seq) : i # j => seq[i] # seq[j]

CheckQuery(d, e) ==
    LET s == e.sym  nm == StringOf(e.sym) IN
    Need(e.has = (s \in DOMAIN d), "C13", <<"has", nm>>)
    \o Need(SetOf(e.sup) = Sup(d, s), "C13", <<"supertypes_of", nm>>)
    \o Need(SetOf(e.allsup) = AllSup(d, s) /\ NoDup(e.allsup), "C13", <<"all_supertypes_of", nm>>)
    \o Need(SetOf(e.sub) = Sub(d, s), "C13", <<"subtypes_of", nm>>)
    \o Need(e.hassub = (Sub(d, s) # {}), "C13", <<"has_subtype", nm>>)
    \o Need(SetOf(e.allsub) = AllSub(d, s) /\ NoDup(e.allsub), "C13", <<"all_subtypes_of", nm>>)
    \o Need(SetOf(e.inh) = Inh(d, s) /\ NoDup(e.inh), "C13", <<"inheritance", nm>>)
    \o Need(SetOf(e.fits) = {b \in DOMAIN d : Fits(d, s, b)}, "C13", <<"fits", nm>>)
    \o Need(\A b \in SetOf(e.fits_undefined) : FALSE, "C13", <<"fits an undefined base", nm>>)
    \o Need(SetOf(e.choices) = ChoicesFor(d, s), "C13", <<"choices_for", nm>>)
    \o Need(SetOf(e.conjuncts) = ConjunctDefs(d, s), "C13", <<"conjuncts_defs", nm>>)

CheckReflect(d, e) ==
    Need(SetOf(e.defs) = Reflect(d, e.rec) /\ NoDup(e.defs), "C13", <<"reflect defs", e.defs>>)
    \o Need(SetOf(e.fits) = {b \in SetOf(e.asked) : ReflectFits(d, e.rec, b)}, "C13", <<"Reflection::fits", e.fits>>)
    \o Need(SetOf(e.isa) = {b \in SetOf(e.asked) : ReflectFits(d, e.rec, b)}, "C13", <<"^symbol filter", e.isa>>)

Check(d, e) == CASE e.op = "defs.q" -> CheckQuery(d, e)
                 [] e.op = "defs.reflect" -> CheckReflect(d, e)
                 [] e.op = "defs.panic" -> Need(FALSE, "C13", <<"namespace query panicked", e.what, e.msg>>)
                 [] e.op = "defs.load" -> Need(Acyclic(DbOf(e.rows)), "SPEC", <<"harness produced a cyclic taxonomy">>)
                 [] OTHER -> <<<<"SPEC", <<"unknown op", e.op>>>>>>

Init == l = 1 /\ nbad = 0 /\ db = <<>>
Next == \/ /\ l <= Len(Rec)
           /\ LET e == Rec[l]
                  r == Check(db, e)
              IN /\ Report(e.i, r, 1) /\ nbad' = nbad + Len(r)
                 /\ db' = IF e.op = "defs.load" THEN DbOf(e.rows) ELSE db
           /\ l' = l + 1
        \/ /\ l = Len(Rec) + 1
           /\ PrintT("CONSUMED " \o ToString(Len(Rec)) \o " " \o ToString(nbad))
           /\ l' = l + 1 /\ UNCHANGED <<nbad, db>>
Spec == Init /\ [][Next]_<<l, nbad, db>>
=============================================================================

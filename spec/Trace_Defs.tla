----------------------------- MODULE Trace_Defs -----------------------------
(***************************************************************************)
(* Validates recorded namespace queries against Defs.tla (property C13;     *)
(* the per-thread / per-history events of C14 reuse CheckQuery).            *)
(* The trace is stateful: a defs.load event carries the defs grid projected *)
(* to (def, symbols of is); later events are judged against that graph.     *)
(*   defs.q       answers of every taxonomy query for one symbol            *)
(*   defs.reflect reflection of a record: defs, fits, ^symbol filter        *)
(* Beyond the listed property (reported under the id X13, never as C13):    *)
(*   defs.index   the indexes built by Namespace::make                      *)
(*   defs.assoc   associations (is / tagOn / tags / any), implementation    *)
(*   defs.protos  children prototypes; the entity type of a record          *)
(***************************************************************************)
EXTENDS Defs, TraceBase

VARIABLES l, nbad, db, at

SetOf(seq) == {seq[i] : i \in 1..Len(seq)}
NoDup(seq) == \A i, j \in 1..Len(seq) : i # j => seq[i] # seq[j]

CheckQuery(d, e) ==
    LET s == e.sym  nm == StringOf(e.sym) IN
    Need(e.has = (s \in DOMAIN d), "C13", <<"has", nm>>)
    \o Need(SetOf(e.sup) = Sup(d, s), "C13", <<"supertypes_of", nm>>)
    \o Need(SetOf(e.allsup) = AllSup(d, s) /\ NoDup(e.allsup), "C13", <<"all_supertypes_of", nm>>)
    \o Need(SetOf(e.sub) = Sub(d, s), "C13", <<"subtypes_of", nm>>)
    \o Need(e.hassub = (Sub(d, s) # {}), "C13", <<"has_subtype", nm>>)
    \o Need(SetOf(e.allsub) = AllSub(d, s) /\ NoDup(e.allsub), "C13", <<"all_subtypes_of", nm>>)
    \o Need(SetOf(e.inh) = Inh(d, s) /\ NoDup(e.inh), "C13", <<"inheritance", nm>>)
    \o Need(SetOf(e.fits) = {b \in DOMAIN d : Fits(d, s, b)}, "C13", <<"fits", nm>>)
    \o Need(\A b \in SetOf(e.fits_undefined) : FALSE, "C13", <<"fits an undefined base", nm>>)
    \o Need(SetOf(e.choices) = ChoicesFor(d, s), "C13", <<"choices_for", nm>>)
    \o Need(SetOf(e.conjuncts) = ConjunctDefs(d, s), "C13", <<"conjuncts_defs", nm>>)

CheckReflect(d, e) ==
    Need(SetOf(e.defs) = Reflect(d, e.rec) /\ NoDup(e.defs), "C13", <<"reflect defs", e.defs>>)
    \o Need(SetOf(e.fits) = {b \in SetOf(e.asked) : ReflectFits(d, e.rec, b)}, "C13", <<"Reflection::fits", e.fits>>)
    \o Need(SetOf(e.isa) = {b \in SetOf(e.asked) : ReflectFits(d, e.rec, b)}, "C13", <<"^symbol filter", e.isa>>)

Named(seq) == {<<seq[i][1], SetOf(seq[i][2])>> : i \in 1..Len(seq)}
CheckIndex(d, a, e) ==
    Need(Named(e.choices) = {<<c, Sub(d, c)>> : c \in {x \in DOMAIN d : IsChoice(d, x)}}, "C13", <<"choices index">>)
    \o Need(Named(e.subtypes) = {<<s, Sub(d, s)>> : s \in UNION {d[x] : x \in DOMAIN d}}, "C13", <<"subtypes index">>)
    \o Need(SetOf(e.features) = {x \in DOMAIN d : IsFeature(x)} /\ NoDup(e.features), "X13", <<"features">>)
    \o Need(SetOf(e.conjuncts) = {x \in DOMAIN d : IsConjunct(x)} /\ NoDup(e.conjuncts), "X13", <<"conjuncts">>)
    \o Need(SetOf(e.libs) = Sub(d, N_("lib")), "X13", <<"libs">>)
    \o Need(SetOf(e.feature_names) = FeatureNames(d) /\ NoDup(e.feature_names), "X13", <<"feature_names">>)
    \o Need(SetOf(e.tag_on_names) = TagOnNames(a) /\ NoDup(e.tag_on_names), "X13", <<"tag_on_names">>)
    \o Need(Named(e.tag_on_defs) = {<<x, TagOnDefs(d, a, x)>> : x \in {y \in DOMAIN a : N_("tagOn") \in a[y].listtags}},
            "X13", <<"tag_on_defs">>)

CheckAssoc(d, a, e) ==
    LET s == e.sym  nm == StringOf(e.sym) IN
    Need(SetOf(e.is) = Associations(d, a, s, N_("is")), "X13", <<"is", nm>>)
    \o Need(SetOf(e.tag_on) = Associations(d, a, s, N_("tagOn")), "X13", <<"tag_on", nm>>)
    \o Need(SetOf(e.tags) = Associations(d, a, s, N_("tags")) /\ NoDup(e.tags), "X13", <<"tags", nm>>)
    \o Need(\A i \in 1..Len(e.by) : SetOf(e.by[i][2]) = Associations(d, a, s, e.by[i][1]), "X13",
            <<"associations", nm, {StringOf(e.by[i][1]) : i \in {j \in 1..Len(e.by) : SetOf(e.by[j][2]) # Associations(d, a, s, e.by[j][1])}}>>)
    \o Need(SetOf(e.impl) = Implementation(d, a, s), "X13", <<"implementation", nm>>)
    \o Need(e.fits_marker = Fits(d, s, N_("marker")) /\ e.fits_val = Fits(d, s, N_("val"))
            /\ e.fits_choice = Fits(d, s, N_("choice")) /\ e.fits_entity = Fits(d, s, N_("entity")), "C13", <<"fits_marker/val/choice/entity", nm>>)

CheckProtos(d, a, e) ==
    Need(ProtosOk(d, a, e.rec, e.protos) /\ NoDup(e.protos), "X13", <<"protos", e.protos>>)
    \o Need(EntityOk(d, e.rec, e.entity), "X13", <<"entity type", StringOf(e.entity)>>)

Check(d, a, e) == CASE e.op = "defs.q" -> CheckQuery(d, e)
                 [] e.op = "defs.reflect" -> CheckReflect(d, e) \o Need(EntityOk(d, e.rec, e.entity), "X13", <<"entity type", StringOf(e.entity)>>)
                 [] e.op = "defs.index" -> CheckIndex(d, a, e)
                 [] e.op = "defs.assoc" -> CheckAssoc(d, a, e)
                 [] e.op = "defs.protos" -> CheckProtos(d, a, e)
                 [] e.op = "defs.panic" -> Need(FALSE, IF e.what \in {"query", "reflect"} THEN "C13" ELSE "X13", <<"namespace query panicked", e.what, e.msg>>)
                 [] e.op = "defs.load" -> Need(Acyclic(DbOf(e.rows)), "SPEC", <<"harness produced a cyclic taxonomy">>)
                 [] OTHER -> <<<<"SPEC", <<"unknown op", e.op>>>>>>

Init == l = 1 /\ nbad = 0 /\ db = <<>> /\ at = <<>>
Next == \/ /\ l <= Len(Rec)
           /\ LET e == Rec[l]
                  r == Check(db, at, e)
              IN /\ Report(e.i, r, 1) /\ nbad' = nbad + Len(r)
                 /\ db' = IF e.op = "defs.load" THEN DbOf(e.rows) ELSE db
                 /\ at' = IF e.op = "defs.load" THEN AtOf(e.attrs) ELSE at
           /\ l' = l + 1
        \/ /\ l = Len(Rec) + 1
           /\ PrintT("CONSUMED " \o ToString(Len(Rec)) \o " " \o ToString(nbad))
           /\ l' = l + 1 /\ UNCHANGED <<nbad, db, at>>
Spec == Init /\ [][Next]_<<l, nbad, db, at>>
=============================================================================

----------------------------- MODULE ZincStream -----------------------------
(***************************************************************************)
(* The pull side of the Zinc decoder as a state machine (properties C03,    *)
(* C11): a reader that delivers the bytes of Data one read() at a time and  *)
(* may answer Interrupted any number of times, or fail with an I/O error at *)
(* offset FailAt; the scanner of decode/scanner.rs (one current byte `cur`, *)
(* a peek stash, last_peek, is_eof) on top of it; on top of the scanner the *)
(* lexer's handling of a token that starts with a digit (lexer.rs           *)
(* parse_number_date_time: up to four non-consuming peeks to tell a number  *)
(* from a date or a time, is_eof cleared again when a peek met the end);    *)
(* and on top of the lexer the lazy row loop of decode/complex/grid.rs for   *)
(* a grid body of number cells:                                             *)
(*      row := cell ("," cell)* NL        cell := [digit+]                  *)
(* The machine is written as it is MEANT to work (bounds and end-of-input   *)
(* exits the property demands); the implementation is bound to it by the    *)
(* replay of reader schedules (dec.sched events, Trace_Total).              *)
(*                                                                          *)
(* Actions: one per read() of the reader (ReadOk, ReadInterrupted, ReadEof, *)
(* ReadFail) feeding a pending scanner request, and one per scanner-level   *)
(* step of the lexer / row loop.                                            *)
(* Checked:                                                                 *)
(*   Faithful     bytes seen by the scanner (consumed ++ stash) are exactly *)
(*                the bytes the reader delivered, in order: Interrupted and *)
(*                peeking lose or duplicate nothing (chunk independence)    *)
(*   NoReadAhead  the reader has been asked for no more than what the       *)
(*                scanner holds: consumed + cur + stash = delivered         *)
(*   LazyBound    when row i is handed out, the reader has delivered no     *)
(*                further than the end of the first token after row i's     *)
(*                newline, plus the one byte of look-ahead                  *)
(*   RowsCorrect  rows handed out = the rows of Data, in order              *)
(*   Termination  under weak fairness the machine reaches done (value,      *)
(*                error, or end of input) - no loop without progress        *)
(***************************************************************************)
EXTENDS Integers, Sequences, TLC

CONSTANTS Datas,       \* the inputs: a set of byte sequences (digits 48..57, comma 44, newline 10)
          MaxIntr      \* bound on consecutive Interrupted answers (keeps the model finite)

VARIABLES Data,        \* the input, chosen initially
          FailAt,      \* offset at which the reader fails, or -1, chosen initially
          off,         \* bytes delivered by the reader so far
          intr,        \* consecutive Interrupted answers
          cur, hasCur, \* the scanner's current byte
          stash,       \* peeked bytes not yet consumed (scanner.next)
          lastPeek,    \* scanner.last_peek
          eof,         \* scanner.is_eof
          consumed,    \* bytes that have been `cur` and were advanced past
          want,        \* pending scanner request: "none" | "read" | "peek"
          pc,          \* row loop / lexer program counter
          k,           \* lexer: peeks made while classifying a token that starts with a digit (number / date / time)
          tok, tokctx, \* lexer: digits of the token being read; "cell" = a cell of the current row, "ahead" = the first
                       \*        token after a row's newline, read before that row is handed out
          cell, row, rows,   \* digits of the current cell, cells of the current row, rows handed out
          yieldedAt,   \* value of `off` when each row was handed out
          err
vars == <<Data, FailAt, off, intr, cur, hasCur, stash, lastPeek, eof, consumed, want, pc, k, tok, tokctx, cell, row, rows, yieldedAt, err>>
lexvars == <<k, tok, tokctx>>

IsDigit(b) == b >= 48 /\ b <= 57
NL == 10
COMMA == 44

Init == /\ Data \in Datas /\ FailAt \in -1..Len(Data)
        /\ off = 0 /\ intr = 0 /\ cur = 0 /\ hasCur = FALSE /\ stash = <<>> /\ lastPeek = 255 /\ eof = FALSE /\ consumed = <<>>
        /\ k = 0 /\ tok = <<>> /\ tokctx = "cell"
        /\ want = "read"                     \* Scanner::make reads the first byte
        /\ pc = "make" /\ cell = <<>> /\ row = <<>> /\ rows = <<>> /\ yieldedAt = <<>> /\ err = "none"

\* ---- the reader: answers one pending read_exact(1 byte) ----
Pending == want \in {"read", "peek"} /\ err = "none"
\* a read request is served from the stash first (scanner.read()); only then from the reader
ServeFromStash ==
    /\ want = "read" /\ stash # <<>> /\ err = "none"
    /\ consumed' = IF hasCur THEN Append(consumed, cur) ELSE consumed
    /\ cur' = Head(stash) /\ hasCur' = TRUE /\ stash' = Tail(stash)
    /\ want' = "none"
    /\ UNCHANGED <<off, intr, eof, lastPeek, pc, cell, row, rows, yieldedAt, err>> /\ UNCHANGED lexvars
NeedsReader == Pending /\ ~(want = "read" /\ stash # <<>>)
ReadInterrupted ==
    /\ NeedsReader /\ intr < MaxIntr /\ off # FailAt
    /\ intr' = intr + 1                       \* read_exact retries: nothing else changes
    /\ UNCHANGED <<off, cur, hasCur, stash, lastPeek, eof, consumed, want, pc, cell, row, rows, yieldedAt, err>> /\ UNCHANGED lexvars
ReadOk ==
    /\ NeedsReader /\ off < Len(Data) /\ off # FailAt
    /\ off' = off + 1 /\ intr' = 0
    /\ IF want = "read"
       THEN /\ consumed' = IF hasCur THEN Append(consumed, cur) ELSE consumed
            /\ cur' = Data[off + 1] /\ hasCur' = TRUE /\ UNCHANGED <<stash, lastPeek>>
       ELSE /\ stash' = Append(stash, Data[off + 1]) /\ lastPeek' = Data[off + 1] /\ UNCHANGED <<cur, hasCur, consumed>>
    /\ want' = "none"
    /\ UNCHANGED <<eof, pc, cell, row, rows, yieldedAt, err>> /\ UNCHANGED lexvars
ReadEof ==
    /\ NeedsReader /\ off = Len(Data) /\ off # FailAt
    /\ eof' = TRUE /\ want' = "none" /\ intr' = 0          \* UnexpectedEof: is_eof set, cur unchanged
    /\ UNCHANGED <<off, cur, hasCur, stash, lastPeek, consumed, pc, cell, row, rows, yieldedAt, err>> /\ UNCHANGED lexvars
ReadFail ==
    /\ NeedsReader /\ off = FailAt
    /\ err' = "io" /\ want' = "none"
    /\ UNCHANGED <<off, intr, cur, hasCur, stash, lastPeek, eof, consumed, pc, cell, row, rows, yieldedAt>> /\ UNCHANGED lexvars

\* ---- the row loop over the scanner (runs only when no request is pending) ----
Idle == want = "none" /\ err = "none"
Ask(kind) == want' = kind
AtEnd == eof \/ ~hasCur

\* after Scanner::make: start the first row
scan == <<off, intr, cur, hasCur, stash, lastPeek, consumed>>      \* scanner state only reader actions change
Made == /\ Idle /\ pc = "make" /\ pc' = "cellstart"
        /\ UNCHANGED <<scan, eof, want, cell, row, rows, yieldedAt, err>> /\ UNCHANGED lexvars

\* at the start of a cell: a digit starts a token the lexer must classify, a comma ends an (empty) cell, a newline
\* ends the row, end of input ends the grid (a cut-off row is an error: "Unterminated Row")
CellStart ==
    /\ Idle /\ pc = "cellstart"
    /\ IF AtEnd THEN
          /\ pc' = "done" /\ err' = (IF row # <<>> \/ cell # <<>> THEN "unterminated row" ELSE "none")
          /\ UNCHANGED <<want, cell, row, rows, yieldedAt>> /\ UNCHANGED lexvars
       ELSE IF IsDigit(cur) THEN
          /\ pc' = "classify" /\ k' = 0 /\ tok' = <<>> /\ tokctx' = "cell" /\ UNCHANGED <<want, cell, row, rows, yieldedAt, err>>
       ELSE IF cur = COMMA THEN
          /\ row' = Append(row, cell) /\ cell' = <<>> /\ Ask("read") /\ UNCHANGED <<pc, rows, yieldedAt, err>> /\ UNCHANGED lexvars
       ELSE IF cur = NL THEN
          /\ pc' = "afternl" /\ Ask("read") /\ UNCHANGED <<cell, row, rows, yieldedAt, err>> /\ UNCHANGED lexvars
       ELSE /\ pc' = "done" /\ err' = "unexpected byte" /\ UNCHANGED <<want, cell, row, rows, yieldedAt>> /\ UNCHANGED lexvars
    /\ UNCHANGED <<scan, eof>>

\* lexer.rs parse_number_date_time: a token that starts with a digit may be a number, a date or a time; the lexer
\* peeks - without consuming - while it sees digits, at most four times, then decides. End of input during a peek
\* sets is_eof, which the lexer clears again: the peeked bytes are still to be consumed.
Classify ==
    /\ Idle /\ pc = "classify"
    /\ LET look == IF k = 0 THEN cur ELSE lastPeek IN
       IF k < 4 /\ IsDigit(look) /\ ~eof
       THEN /\ k' = k + 1 /\ Ask("peek") /\ UNCHANGED <<pc, eof, tok, tokctx>>
       ELSE /\ pc' = "number" /\ eof' = FALSE /\ UNCHANGED <<want, k, tok, tokctx>>
    /\ UNCHANGED <<scan, cell, row, rows, yieldedAt, err>>

\* inside a number: digits are consumed one by one (from the stash first); the first non-digit ends the token.
\* A token read in a cell is that cell; a token read ahead (first token after a row's newline) completes the hand-out
\* of the row before it and becomes the first cell of the next row.
Number ==
    /\ Idle /\ pc = "number"
    /\ IF ~eof /\ IsDigit(cur)
       THEN /\ tok' = Append(tok, cur) /\ Ask("read") /\ UNCHANGED <<pc, cell, row, rows, yieldedAt>>
       ELSE IF tokctx = "cell"
       THEN /\ cell' = tok /\ pc' = "cellstart" /\ UNCHANGED <<want, tok, row, rows, yieldedAt>>
       ELSE /\ rows' = Append(rows, Append(row, cell)) /\ yieldedAt' = Append(yieldedAt, off)
            /\ row' = <<>> /\ cell' = tok /\ pc' = "cellstart" /\ UNCHANGED <<want, tok>>
    /\ UNCHANGED <<scan, eof, k, tokctx, err>>

\* the newline was consumed: the lexer reads the first token after the row (consume_end), then the row is handed out
AfterNl ==
    /\ Idle /\ pc = "afternl"
    /\ IF ~eof /\ IsDigit(cur)
       THEN /\ pc' = "classify" /\ k' = 0 /\ tok' = <<>> /\ tokctx' = "ahead" /\ UNCHANGED <<rows, yieldedAt, row, cell>>
       ELSE \* a structural byte (or end of input) is a complete token already
            /\ rows' = Append(rows, Append(row, cell)) /\ yieldedAt' = Append(yieldedAt, off)
            /\ row' = <<>> /\ cell' = <<>> /\ pc' = "cellstart" /\ UNCHANGED lexvars
    /\ UNCHANGED <<scan, eof, want, err>>

Done == (pc = "done" \/ err # "none") /\ UNCHANGED vars
Step == ServeFromStash \/ ReadInterrupted \/ ReadOk \/ ReadEof \/ ReadFail \/ Made \/ CellStart \/ Classify \/ Number \/ AfterNl \/ Done
Next == Step /\ UNCHANGED <<Data, FailAt>>
Progress == (ServeFromStash \/ ReadOk \/ ReadEof \/ ReadFail \/ Made \/ CellStart \/ Classify \/ Number \/ AfterNl) /\ UNCHANGED <<Data, FailAt>>
Spec == Init /\ [][Next]_vars /\ WF_vars(Progress)

----------------------------------------------------------------------------
Held == (IF hasCur THEN Append(consumed, cur) ELSE consumed) \o stash
Faithful == Held = SubSeq(Data, 1, off)
NoReadAhead == Len(Held) = off

\* reference: the rows of Data (cells as digit sequences), and for each row the offset of the end of the first token
\* after its newline
RECURSIVE SplitRows(_, _, _, _)
SplitRows(i, c, r, acc) ==
    IF i > Len(Data) THEN acc
    ELSE IF IsDigit(Data[i]) THEN SplitRows(i + 1, Append(c, Data[i]), r, acc)
    ELSE IF Data[i] = COMMA THEN SplitRows(i + 1, <<>>, Append(r, c), acc)
    ELSE IF Data[i] = NL THEN SplitRows(i + 1, <<>>, <<>>, Append(acc, Append(r, c)))
    ELSE acc
RefRows == SplitRows(1, <<>>, <<>>, <<>>)
RECURSIVE NlOffsets(_, _)
NlOffsets(i, acc) == IF i > Len(Data) THEN acc ELSE NlOffsets(i + 1, IF Data[i] = NL THEN Append(acc, i) ELSE acc)
RECURSIVE DigitRunEnd(_)
DigitRunEnd(i) == IF i <= Len(Data) /\ IsDigit(Data[i]) THEN DigitRunEnd(i + 1) ELSE i - 1
\* end offset of the first token after the newline at offset n
FirstTokenEnd(n) == IF n + 1 > Len(Data) THEN n ELSE IF IsDigit(Data[n + 1]) THEN DigitRunEnd(n + 1) ELSE n + 1
LazyBound == \A i \in 1..Len(yieldedAt) : i <= Len(NlOffsets(1, <<>>)) /\ yieldedAt[i] <= FirstTokenEnd(NlOffsets(1, <<>>)[i]) + 1
RowsCorrect == /\ \A i \in 1..Len(rows) : i <= Len(RefRows) /\ rows[i] = RefRows[i]
               /\ (pc = "done" /\ err = "none" => rows = RefRows)
Termination == <>(pc = "done" \/ err # "none")
=============================================================================

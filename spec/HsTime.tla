------------------------------- MODULE HsTime -------------------------------
(***************************************************************************)
(* Time: instants, RFC 3339 text, zones (property C06).                     *)
(* An instant is [day, sod, ns]: days since 2000-01-01 UTC, second of that  *)
(* UTC day, nanoseconds.  A timestamp value adds off (local offset in s)    *)
(* and tz (zone name).  Gregorian arithmetic is HsCore's (written from the  *)
(* calendar rules, independent of chrono).                                  *)
(***************************************************************************)
EXTENDS Hayson

\* the instant denoted by civil fields read from an RFC 3339 / Zinc text
InstantOf(r) ==
    LET local == r.h * 3600 + r.mi * 60 + r.s
        u == local - r.off
        dshift == IF u < 0 THEN -1 ELSE IF u >= 86400 THEN 1 ELSE 0
    IN [day |-> DaysFromCivil(r.y, r.m, r.d) + dshift, sod |-> u - dshift * 86400, ns |-> r.ns]

SameInstant(v, i) == v.day = i.day /\ v.sod = i.sod /\ v.ns = i.ns

\* text with exactly nd fraction digits (0..9) of an instant at an offset (truncating ns to nd digits)
Pow10(n) == IF n = 0 THEN 1 ELSE IF n = 1 THEN 10 ELSE IF n = 2 THEN 100 ELSE IF n = 3 THEN 1000 ELSE IF n = 4 THEN 10000
            ELSE IF n = 5 THEN 100000 ELSE IF n = 6 THEN 1000000 ELSE IF n = 7 THEN 10000000 ELSE IF n = 8 THEN 100000000
            ELSE 1000000000
RECURSIVE DigitsOf(_, _)
DigitsOf(n, width) == IF width = 0 THEN <<>> ELSE DigitsOf(n \div 10, width - 1) \o <<48 + (n % 10)>>
TruncNs(ns, nd) == (ns \div Pow10(9 - nd)) * Pow10(9 - nd)
Rfc3339With(day, sod, ns, off, nd, zulu) ==
    LET l == sod + off
        dshift == IF l < 0 THEN -1 ELSE IF l >= 86400 THEN 1 ELSE 0
        ls == l - dshift * 86400
        cd == CivilFromDays(day + dshift)
        ao == IF off < 0 THEN -off ELSE off
    IN WriteDate(cd.y, cd.m, cd.d) \o <<84>> \o Pad2(ls \div 3600) \o <<58>> \o Pad2((ls \div 60) % 60) \o <<58>> \o Pad2(ls % 60)
       \o (IF nd = 0 THEN <<>> ELSE <<46>> \o DigitsOf(ns \div Pow10(9 - nd), nd))
       \o (IF off = 0 /\ zulu THEN <<90>> ELSE <<IF off < 0 THEN 45 ELSE 43>> \o Pad2(ao \div 3600) \o <<58>> \o Pad2((ao \div 60) % 60))
=============================================================================

------------------------------ MODULE Trace_Dis ------------------------------
(***************************************************************************)
(* C20: display names.                                                      *)
(*  dis.macro {pattern, tags: <<name, value, display>>, loc, result}        *)
(*     result must be one of Macro(pattern, scope, loc); display texts are  *)
(*     first checked against their values (DisTextOk)                       *)
(*  dis.rec {rec, disp, loc, def, dis (HaystackDict::dis), dis2 (dict_to_dis*)
(*     with localiser and default)}                                         *)
(***************************************************************************)
EXTENDS Dis, TraceBase
VARIABLES l, nbad

RECURSIVE DispOk(_, _, _)
DispOk(rec, disp, i) == IF i > Len(rec) THEN TRUE
                        ELSE Has(disp, rec[i][1]) /\ DisTextOk(Get(disp, rec[i][1]), rec[i][2]) /\ DispOk(rec, disp, i + 1)

CheckMacro(e) ==
    LET scope == MacroScope(e.tags, e.disp) IN
    Need(e.monitor = "ok", "C20", <<"substitution panicked", StringOf(e.pattern)>>)
    \o (IF e.monitor # "ok" THEN <<>>
        ELSE Need(DispOk(e.tags, e.disp, 1), "C20", <<"display text of a tag value", StringOf(e.pattern)>>)
             \o Need(e.result \in Macro(e.pattern, scope, e.loc), "C20", <<"macro substitution", StringOf(e.pattern), StringOf(e.result)>>)
             \o Need(~NoDollar(e.pattern) \/ e.result = e.pattern, "C20", <<"text without $ changed", StringOf(e.pattern)>>))

CheckRec(e) ==
    Need(e.monitor = "ok", "C20", <<"dis panicked">>)
    \o (IF e.monitor # "ok" THEN <<>>
        ELSE Need(DispOk(e.rec, e.disp, 1), "C20", <<"display text of a tag value">>)
             \o Need(e.dis \in DisOf(e.rec, e.disp, <<>>, <<>>), "C20", <<"HaystackDict::dis precedence", StringOf(e.dis)>>)
             \o Need(e.dis2 \in DisOf(e.rec, e.disp, e.loc, e.def), "C20", <<"dict_to_dis precedence / localisation / default", StringOf(e.dis2)>>))

Check(e) == CASE e.op = "dis.macro" -> CheckMacro(e) [] e.op = "dis.rec" -> CheckRec(e) [] OTHER -> <<<<"SPEC", <<"unknown op", e.op>>>>>>
Init == l = 1 /\ nbad = 0
Next == \/ /\ l <= Len(Rec)
           /\ LET r == Check(Rec[l]) IN Report(Rec[l].i, r, 1) /\ nbad' = nbad + Len(r)
           /\ l' = l + 1
        \/ /\ l = Len(Rec) + 1
           /\ PrintT("CONSUMED " \o ToString(Len(Rec)) \o " " \o ToString(nbad))
           /\ l' = l + 1 /\ nbad' = nbad
Spec == Init /\ [][Next]_<<l, nbad>>
=============================================================================

-------------------------------- MODULE Kinds --------------------------------
(***************************************************************************)
(* C19: every value has exactly one kind; the kind enumeration, its numeric *)
(* code and its name map one-to-one; typed conversions and typed dict       *)
(* getters succeed exactly for the matching kind and return the payload;    *)
(* a grid built from records keeps them as rows and has one column per      *)
(* distinct tag name, sorted.                                               *)
(***************************************************************************)
EXTENDS HsCore
\* abstract kind tag -> Haystack kind name
KindName == [null |-> "null", remove |-> "remove", marker |-> "marker", na |-> "na", bool |-> "bool", num |-> "number", str |-> "str",
             uri |-> "uri", ref |-> "ref", symbol |-> "symbol", date |-> "date", time |-> "time", dt |-> "dateTime", coord |-> "coord",
             xstr |-> "xstr", list |-> "list", dict |-> "dict", grid |-> "grid"]
KindNames == {KindName[k] : k \in DOMAIN KindName}
\* the order in which predicates / typed conversions are logged
KindSeq == <<"null", "remove", "marker", "na", "bool", "num", "str", "uri", "ref", "symbol", "date", "time", "dt", "coord", "xstr", "list", "dict", "grid">>
IndexOfKind(k) == CHOOSE i \in 1..Len(KindSeq) : KindSeq[i] = k

\* grid helpers (val/grid.rs; beyond the listed property): an error grid is one whose meta has the marker tag `err`;
\* make_err(dis) is the grid without rows, one column `empty`, meta {dis, err}; make_empty the same without meta
HasErrMarker(meta) == \E i \in 1..Len(meta) : meta[i][1] = CodePoints("err") /\ meta[i][2].k = "marker"
EmptyCols == <<Col(CodePoints("empty"), <<>>)>>
ErrGrid(dis) == Grid(<<51, 46, 48>>, <<<<CodePoints("dis"), Str(dis)>>, <<CodePoints("err"), Marker>>>>, EmptyCols, <<>>)
EmptyGrid == Grid(<<51, 46, 48>>, <<>>, EmptyCols, <<>>)
DefaultGrid == Grid(<<51, 46, 48>>, <<>>, <<>>, <<>>)
=============================================================================

------------------------------ MODULE MC_Texts ------------------------------
(***************************************************************************)
(* Input enumeration for the totality properties (C03): every text of       *)
(* length <= MaxLen over an alphabet with one or two representatives of     *)
(* each character class of the Zinc grammar, with the specification's       *)
(* verdict computed in every state - so the TLA+ reader itself is shown     *)
(* total on them (TLC would fail on a partial operator) - and every JSON    *)
(* tree of a small shape family that exercises the Hayson visitor.          *)
(***************************************************************************)
EXTENDS Hayson, TLC, Json

CONSTANTS MaxLen, Mode, EmitVectors, KindFirst
VARIABLES text, tree
vars == <<text, tree>>

\* digit lower upper " ` \ @ ^ , : - . space NL CR [ ] { } < > ( ) T Z N e non-ASCII(é) _ / u
Alphabet == {48, 50, 97, 118, 67, 34, 96, 92, 64, 94, 44, 58, 45, 46, 32, 10, 13, 91, 93, 123, 125, 60, 62, 40, 41, 84, 90, 78, 101, 233, 95, 117}

InitText == text = <<>> /\ tree = JNull
NextText == Len(text) < MaxLen /\ \E c \in Alphabet : text' = Append(text, c) /\ UNCHANGED tree

\* JSON trees: objects whose members are drawn from the names the Hayson visitor looks at
K(s) == CodePoints(s)
Names == {K("_kind"), K("val"), K("unit"), K("dis"), K("tz"), K("lat"), K("lng"), K("type"), K("meta"), K("cols"), K("rows"), K("name"), K("a"), K("ver")}
Leaves == {JNull, JBool(TRUE), JNum(K("1")), JNum(K("-1.5e3")),
           \* integers around the edges of i64 / u64 (serde_json hands them to different visitor methods), out-of-range exponents
           JNum(K("9223372036854775807")), JNum(K("9223372036854775808")), JNum(K("18446744073709551615")),
           JNum(K("18446744073709551616")), JNum(K("-9223372036854775808")), JNum(K("-9223372036854775809")),
           JNum(K("1E2")), JNum(K("0.5")), JNum(K("-0")), JNum(K("1e400")), JNum(K("1e-400")), JStr(K("x")), JStr(K("m")), JStr(K("INF")), JStr(K("NaN")),
           JStr(K("2021-01-15")), JStr(K("12:30:00")), JStr(K("2021-01-15T12:30:00Z")), JStr(K("2021-01-15T12:30:00+05:30")),
           JStr(K("New_York")), JStr(K("Nowhere")), JStr(K("3.0")), JArr(<<>>), JObj(<<>>), JArr(<<JNum(K("1"))>>),
           JObj(<<<<K("name"), JStr(K("a"))>>>>), JArr(<<JObj(<<<<K("name"), JStr(K("a"))>>>>)>>), JArr(<<JObj(<<<<K("a"), JNum(K("1"))>>>>)>>)}
   \cup {JStr(K(k)) : k \in {"marker", "na", "remove", "number", "ref", "symbol", "uri", "date", "time", "dateTime", "coord", "xstr", "grid", "dict", "bogus"}}
InitTree == text = <<>> /\ tree = JObj(<<>>)
NextTree == /\ tree.j = "obj" /\ Len(tree.mem) < MaxLen
            /\ (IF Len(tree.mem) = 0 \/ ~KindFirst THEN TRUE ELSE tree.mem[1][1] = K("_kind"))
            /\ \E n \in Names, x \in Leaves :
                  /\ (n = K("_kind") => x.j = "str")          \* keep the family small: _kind is always a string here ...
                  /\ tree' = JObj(Append(tree.mem, <<n, x>>))
            /\ UNCHANGED text

\* Escape family: opener, one escape (every \uXXXX over the digits that sit on the boundaries of the BMP, the
\* surrogate block and the hex alphabet in both cases; every two-character escape, legal or not; truncated
\* escapes), a tail (nothing, a second escape forming or not forming a surrogate pair, a plain character)
\* and the matching closer or none - in a Str, a Uri, a Ref display name, an XStr, a list, a dict and a grid cell.
H1 == {48, 55, 68, 100, 69, 70}                  \* 0 7 D d E F
H2 == {48, 55, 56, 66, 98, 67, 70}               \* 0 7 8 B b C F
H3 == {48, 70}                                   \* 0 F
H4 == {48, 70, 102, 103}                         \* 0 F f g
Escs == {<<92, 117, a, b, c, d>> : a \in H1, b \in H2, c \in H3, d \in H4}
        \cup {<<92, x>> : x \in {98, 102, 110, 114, 116, 34, 92, 36, 96, 58, 47, 120, 85, 48, 233, 10}}
        \cup {<<92>>, <<92, 117>>, <<92, 117, 68>>, <<92, 117, 68, 56>>, <<92, 117, 68, 56, 48>>, <<92, 117, 233, 48, 48, 48>>}
Tails == {<<>>, <<92, 117, 68, 67, 48, 48>>, <<92, 117, 100, 102, 102, 102>>, <<92, 117, 68, 56, 48, 48>>, <<97>>, <<92, 110>>}
Frames == {<<<<34>>, <<34>>>>, <<<<34>>, <<>>>>, <<<<96>>, <<96>>>>, <<<<96>>, <<>>>>,
           <<K("@a \""), <<34>>>>, <<K("X(\""), K("\")")>>, <<K("[\""), K("\"]")>>, <<K("{a:\""), K("\"}")>>, <<K("{a:`"), K("`}")>>,
           <<K("ver:\"3.0\"") \o <<10, 97, 10, 34>>, <<34, 10>>>>}
InitEsc == /\ tree = JNull
           /\ text \in {f[1] \o e \o t \o f[2] : f \in (IF MaxLen >= 4 THEN Frames ELSE {f \in Frames : Len(f[1]) = 1}), e \in Escs, t \in Tails}

\* Number family: every numeral the grammar's number production builds from these parts - sign, integer digits,
\* fraction, exponent (both letter cases, explicit signs, leading zeros) with the "_" separator in every digit run -
\* followed by a unit or not, bare and inside a list, a dict and a grid cell
NSigns == {<<>>, <<45>>}
NInts == {K("0"), K("7"), K("12"), K("1_2"), K("1_2_3"), K("007")}
NFracs == {<<>>, K(".5"), K(".0_5"), K(".25")}
NExps == {<<>>, K("e1"), K("E1"), K("e+1"), K("e-1"), K("E+0_2"), K("e1_0"), K("e-0_1"), K("e01")}
NUnits == {<<>>, K("m"), K("kW"), K("%"), K("$"), <<176, 70>>, K("_")}
NFrames == {<<<<>>, <<>>>>, <<K("["), K("]")>>, <<K("[1, "), K(" ,2]")>>, <<K("{a:"), K(" b}")>>,
            <<K("ver:\"3.0\"") \o <<10, 97, 44, 98, 10>>, <<44, 49, 10>>>>}
InitNum == /\ tree = JNull
           /\ text \in {f[1] \o sg \o i \o fr \o ex \o u \o f[2] :
                          f \in (IF MaxLen >= 4 THEN NFrames ELSE {g \in NFrames : Len(g[1]) <= 1}),
                          sg \in NSigns, i \in NInts, fr \in NFracs, ex \in NExps, u \in NUnits}

\* Field family: a timestamp, a date, a time and a coordinate with ONE field at a time set to the edges of its range and just
\* beyond (month 00 / 13, day 31 in June / 32, hour 24, second 60, offsets up to +99:99, nine and more fraction digits,
\* latitude 90.1 ...), zone names that exist or not - bare and inside a list, a dict and a grid cell
DTx(y, mo, d, h, mi, sec, f, off, z) ==
    K(y) \o <<45>> \o K(mo) \o <<45>> \o K(d) \o <<84>> \o K(h) \o <<58>> \o K(mi) \o <<58>> \o K(sec) \o K(f) \o K(off) \o K(z)
FYears == {"0000", "9999", "10000", "021"}      FMonths == {"00", "01", "12", "13", "99"}      FDays == {"00", "01", "30", "31", "32", "99"}
FHours == {"00", "23", "24", "99"}              FMins == {"00", "59", "60", "99"}              FSecs == {"00", "59", "60", "61", "99"}
FFracs == {"", ".5", ".123456789", ".1234567890123", "."}
FOffs == {"Z", "+00:00", "-00:00", "+14:00", "-12:00", "+23:59", "+24:00", "-34:00", "+99:99", "+5:00", "-0400", "+05:3"}
FZones == {"", " UTC", " New_York", " Foo", " GMT+5", " Etc/GMT+5"}
FieldTexts ==
    {DTx(y, "06", "01", "10", "00", "00", "", "-04:00", " New_York") : y \in FYears}
    \cup {DTx("2021", m, "01", "10", "00", "00", "", "-04:00", " New_York") : m \in FMonths}
    \cup {DTx("2021", "06", d, "10", "00", "00", "", "-04:00", " New_York") : d \in FDays}
    \cup {DTx("2021", "06", "01", h, "00", "00", "", "-04:00", " New_York") : h \in FHours}
    \cup {DTx("2021", "06", "01", "10", m, "00", "", "-04:00", " New_York") : m \in FMins}
    \cup {DTx("2021", "06", "01", "10", "00", x, "", "-04:00", " New_York") : x \in FSecs}
    \cup {DTx("2021", "06", "01", "10", "00", "00", f, "-04:00", " New_York") : f \in FFracs}
    \cup {DTx("2021", "06", "01", "10", "00", "00", "", o, " New_York") : o \in FOffs}
    \cup {DTx("2021", "06", "01", "10", "00", "00", "", o, z) : o \in {"Z", "-04:00", "+24:00"}, z \in FZones}
    \cup {K(y) \o K("-06-01") : y \in FYears} \cup {K("2021-") \o K(m) \o K("-01") : m \in FMonths} \cup {K("2021-02-") \o K(d) : d \in FDays \cup {"28", "29"}}
    \cup {K(h) \o K(":00:00") : h \in FHours} \cup {K("10:") \o K(m) \o K(":00") : m \in FMins} \cup {K("10:00:") \o K(x) : x \in FSecs}
    \cup {K("10:00:00") \o K(f) : f \in FFracs}
    \cup {K("C(") \o K(la) \o K(",") \o K(ln) \o K(")") : la \in {"90", "-90", "90.1", "-91", "1e2", "", "+5", "45.5"}, ln \in {"180", "-180", "180.5", "-181", "23"}}
FFrames == {<<<<>>, <<>>>>, <<K("["), K("]")>>, <<K("{a:"), K("}")>>, <<K("ver:\"3.0\"") \o <<10, 97, 44, 98, 10>>, <<44, 49, 10>>>>}
InitFld == /\ tree = JNull /\ text \in {f[1] \o x \o f[2] : f \in FFrames, x \in FieldTexts}

Init == CASE Mode = "text" -> InitText [] Mode = "esc" -> InitEsc [] Mode = "num" -> InitNum [] Mode = "fld" -> InitFld [] OTHER -> InitTree
Next == CASE Mode = "text" -> NextText [] Mode \in {"esc", "num", "fld"} -> UNCHANGED vars [] OTHER -> NextTree
Spec == Init /\ [][Next]_vars

\* totality of the specification's own readers
ReaderTotal == IF Mode \in {"text", "esc", "num", "fld"} THEN ZincRead(text).ok \in BOOLEAN ELSE HaysonRead(tree).ok \in BOOLEAN
\* an accepted text is consumed entirely and reading is deterministic (same result twice)
Emit == EmitVectors =>
          IF Mode \in {"text", "esc", "num", "fld"} THEN PrintT("VEC " \o ToJson([op |-> "dec.zinc", text |-> text, src |-> "enum"]))
          ELSE PrintT("VEC " \o ToJson([op |-> "dec.json.tree", tree |-> tree, src |-> "enum"]))
=============================================================================

------------------------------ MODULE MC_Texts ------------------------------
(***************************************************************************)
(* Input enumeration for the totality properties (C03): every text of       *)
(* length <= MaxLen over an alphabet with one or two representatives of     *)
(* each character class of the Zinc grammar, with the specification's       *)
(* verdict computed in every state - so the TLA+ reader itself is shown     *)
(* total on them (TLC would fail on a partial operator) - and every JSON    *)
(* tree of a small shape family that exercises the Hayson visitor.          *)
(***************************************************************************)
EXTENDS Hayson, TLC, Json

CONSTANTS MaxLen, Mode, EmitVectors, KindFirst
VARIABLES text, tree
vars == <<text, tree>>

\* digit lower upper " ` \ @ ^ , : - . space NL CR [ ] { } < > ( ) T Z N e non-ASCII(é) _ / u
Alphabet == {48, 50, 97, 118, 67, 34, 96, 92, 64, 94, 44, 58, 45, 46, 32, 10, 13, 91, 93, 123, 125, 60, 62, 40, 41, 84, 90, 78, 101, 233, 95, 117}

InitText == text = <<>> /\ tree = JNull
NextText == Len(text) < MaxLen /\ \E c \in Alphabet : text' = Append(text, c) /\ UNCHANGED tree

\* JSON trees: objects whose members are drawn from the names the Hayson visitor looks at
K(s) == CodePoints(s)
Names == {K("_kind"), K("val"), K("unit"), K("dis"), K("tz"), K("lat"), K("lng"), K("type"), K("meta"), K("cols"), K("rows"), K("name"), K("a"), K("ver")}
Leaves == {JNull, JBool(TRUE), JNum(K("1")), JNum(K("-1.5e3")), JStr(K("x")), JStr(K("m")), JStr(K("INF")), JStr(K("NaN")),
           JStr(K("2021-01-15")), JStr(K("12:30:00")), JStr(K("2021-01-15T12:30:00Z")), JStr(K("2021-01-15T12:30:00+05:30")),
           JStr(K("New_York")), JStr(K("Nowhere")), JStr(K("3.0")), JArr(<<>>), JObj(<<>>), JArr(<<JNum(K("1"))>>),
           JObj(<<<<K("name"), JStr(K("a"))>>>>), JArr(<<JObj(<<<<K("name"), JStr(K("a"))>>>>)>>), JArr(<<JObj(<<<<K("a"), JNum(K("1"))>>>>)>>)}
   \cup {JStr(K(k)) : k \in {"marker", "na", "remove", "number", "ref", "symbol", "uri", "date", "time", "dateTime", "coord", "xstr", "grid", "dict", "bogus"}}
InitTree == text = <<>> /\ tree = JObj(<<>>)
NextTree == /\ tree.j = "obj" /\ Len(tree.mem) < MaxLen
            /\ (IF Len(tree.mem) = 0 \/ ~KindFirst THEN TRUE ELSE tree.mem[1][1] = K("_kind"))
            /\ \E n \in Names, x \in Leaves :
                  /\ (n = K("_kind") => x.j = "str")          \* keep the family small: _kind is always a string here ...
                  /\ tree' = JObj(Append(tree.mem, <<n, x>>))
            /\ UNCHANGED text

Init == IF Mode = "text" THEN InitText ELSE InitTree
Next == IF Mode = "text" THEN NextText ELSE NextTree
Spec == Init /\ [][Next]_vars

\* totality of the specification's own readers
ReaderTotal == IF Mode = "text" THEN ZincRead(text).ok \in BOOLEAN ELSE HaysonRead(tree).ok \in BOOLEAN
\* an accepted text is consumed entirely and reading is deterministic (same result twice)
Emit == EmitVectors =>
          IF Mode = "text" THEN PrintT("VEC " \o ToJson([op |-> "dec.zinc", text |-> text, src |-> "enum"]))
          ELSE PrintT("VEC " \o ToJson([op |-> "dec.json.tree", tree |-> tree, src |-> "enum"]))
=============================================================================

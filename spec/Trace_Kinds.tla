----------------------------- MODULE Trace_Kinds -----------------------------
(***************************************************************************)
(* C19.  kind.code / kind.name: the code, enumeration and name tables as    *)
(* observed; the stateful part accumulates them and checks at kind.end that *)
(* they are bijections that commute.  kind.value: predicates, kind, typed   *)
(* conversions and typed dict getters of one value.  kind.grid: grids built *)
(* from records.                                                            *)
(***************************************************************************)
EXTENDS Kinds, TraceBase, FiniteSetsExt
VARIABLES l, nbad, codes, names

TrueAt(bs) == {i \in 1..Len(bs) : bs[i]}
CheckValue(e) ==
    LET want == IndexOfKind(e.v.k) IN
    Need(e.monitor = "ok", "C19", <<"panic", e.v.k>>)
    \o Need(TrueAt(e.preds) = {want}, "C19", <<"kind predicates", e.v.k, e.preds>>)
    \o Need(e.kind_name = KindName[e.v.k], "C19", <<"kind of value", e.v.k, e.kind_name>>)
    \o Need(TrueAt(e.typed_ok) = {want} \cap TrueAt(e.typed_exists), "C19", <<"typed conversion succeeds exactly for the matching kind", e.v.k, e.typed_ok>>)
    \o Need(e.typed_same, "C19", <<"typed conversion does not return the stored payload", e.v.k>>)
    \* conversions into f64 / bool / String / Marker / Na / Remove answer for every value of their kind, and for no other
    \o Need(e.monitor # "ok" \/ e.prim_ok = <<e.v.k = "num", e.v.k = "bool", e.v.k = "str", e.v.k = "marker", e.v.k = "na", e.v.k = "remove">>, "C19",
            <<"primitive conversion succeeds exactly for the matching kind", e.v.k, e.prim_ok>>)
    \o Need(e.prim_same, "C19", <<"primitive conversion does not return the stored payload", e.v.k>>)
    \o Need(TrueAt(e.getter_ok) = {want} \cap TrueAt(e.getter_exists), "C19", <<"typed dict getter succeeds exactly for the matching kind", e.v.k, e.getter_ok>>)
    \o Need(e.getter_same, "C19", <<"typed dict getter does not return the stored payload", e.v.k>>)
    \o Need(e.has_ok, "C19", <<"has / missing / has_marker / has_na / has_remove", e.v.k>>)

CheckGrid(e) ==
    LET want == GridFromDicts(e.rows, <<>>) IN
    Need(e.monitor = "ok", "C19", <<"panic building a grid">>)
    \o Need(Same(e.grid, want), "C19", <<"Grid::make_from_dicts">> \o Diff(want, e.grid))
    \o Need(Same(e.value_grid, want), "C19", <<"Value::make_grid_from_dicts">>)
    \o Need(Same(e.meta_grid, GridFromDicts(e.rows, e.meta)), "C19", <<"Grid::make_from_dicts_with_meta">>)
    \o (IF e.helpers = <<>> THEN <<>> ELSE LET h == e.helpers[1] IN
         Need(h.len = Len(e.rows) /\ h.is_empty = (e.rows = <<>>), "X19", <<"Grid::len / is_empty", h.len>>)
         \o Need(h.indexed, "X19", <<"grid[i] / iteration do not give the records in order">>)
         \o Need(~h.is_err /\ ~h.meta_is_err /\ h.errmeta_is_err = HasErrMarker(h.errmeta), "X19", <<"Grid::is_err", h.errmeta_is_err>>)
         \o Need(Same(h.make_err, ErrGrid(h.dis)) /\ h.make_err_is_err, "X19", <<"Grid::make_err">> \o Diff(ErrGrid(h.dis), h.make_err))
         \o Need(Same(h.make_empty, EmptyGrid) /\ Same(h.default, DefaultGrid), "X19", <<"Grid::make_empty / default">>))

Check(e) ==
    CASE e.op = "kind.code" -> Need(e.ok => (e.back = e.code /\ e.name \in KindNames /\ e.name2 = e.name /\ e.name_back_ok /\ e.name_back_code = e.code), "C19", <<"code / enumeration / name do not commute", e.code>>)
      [] e.op = "kind.name" -> Need(e.ok = (e.name \in KindNames) /\ (e.ok => e.display = e.name), "C19", <<"name lookup", e.name, e.ok>>)
      [] e.op = "kind.value" -> CheckValue(e)
      [] e.op = "kind.grid" -> CheckGrid(e)
      [] e.op = "kind.end" ->
           Need(Cardinality({c[1] : c \in codes}) = 18 /\ Cardinality({c[2] : c \in codes}) = 18 /\ Cardinality(codes) = 18, "C19", <<"codes and names are not one-to-one", Cardinality(codes)>>)
           \o Need({c[2] : c \in codes} = KindNames /\ names = KindNames, "C19", <<"name table">>)
      [] OTHER -> <<<<"SPEC", <<"unknown op", e.op>>>>>>

Init == l = 1 /\ nbad = 0 /\ codes = {} /\ names = {}
Next == \/ /\ l <= Len(Rec)
           /\ LET e == Rec[l]
                  r == Check(e)
              IN /\ Report(e.i, r, 1) /\ nbad' = nbad + Len(r)
                 /\ codes' = IF e.op = "kind.code" /\ e.ok THEN codes \cup {<<e.code, e.name>>} ELSE codes
                 /\ names' = IF e.op = "kind.name" /\ e.ok THEN names \cup {e.name} ELSE names
           /\ l' = l + 1
        \/ /\ l = Len(Rec) + 1
           /\ PrintT("CONSUMED " \o ToString(Len(Rec)) \o " " \o ToString(nbad))
           /\ l' = l + 1 /\ UNCHANGED <<nbad, codes, names>>
Spec == Init /\ [][Next]_<<l, nbad, codes, names>>
=============================================================================

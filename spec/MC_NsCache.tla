----------------------------- MODULE MC_NsCache -----------------------------
EXTENDS NsCache, Json
\* diamond a -> {b, c} -> d, an undefined supertype u of c, and a root r above c only (an ancestor b does not share)
MCSyms == {"a", "b", "c", "d", "r", "u"}
MCGraph == [x \in {"a", "b", "c", "d", "r"} |-> CASE x = "a" -> {"b", "c"} [] x = "b" -> {"d"} [] x = "c" -> {"d", "r", "u"} [] OTHER -> {}]
Q1 == {<<"sup", "a">>, <<"allsup", "a">>, <<"inh", "a">>, <<"inh", "b">>, <<"fits", "a", "d">>, <<"fits", "b", "a">>, <<"inh", "u">>, <<"sup", "d">>,
       <<"fits", "c", "u">>}     \* an undefined base: answered without touching a cache
Progs1 == {<<q>> : q \in Q1}
Q3 == {<<"inh", "a">>, <<"fits", "a", "d">>, <<"allsup", "a">>, <<"sup", "c">>, <<"inh", "u">>, <<"fits", "d", "a">>}
ProgsSeq == {<<q>> : q \in Q3} \cup {<<q1, q2>> : q1, q2 \in Q3} \cup {<<q1, q2, q3>> : q1, q2, q3 \in Q3}
Q2 == {<<"inh", "a">>, <<"fits", "a", "d">>, <<"allsup", "a">>}
Progs3 == {<<q>> : q \in Q2}
\* sequential histories are emitted for replay (one thread): answers must not depend on the prefix
EmitHistory == (Cardinality(Threads) = 1 /\ AllDone) => \A t \in Threads : PrintT("VEC " \o ToJson([op |-> "ns.history", prog |-> prog[t]]))
\* negative control: the protocol with the first guard of all_supertypes_of kept across the loop must violate NoReentry
Progs2 == {<<q1, q2>> : q1, q2 \in {<<"inh", "a">>, <<"fits", "a", "d">>, <<"allsup", "a">>, <<"sup", "c">>}}
=============================================================================

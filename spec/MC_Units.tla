------------------------------ MODULE MC_Units ------------------------------
(***************************************************************************)
(* Data theorems about the unit database, exhaustive over its 443 units:    *)
(* no identifier belongs to two units; every symbol can follow a number in  *)
(* Zinc.  State = index of the unit under examination.                      *)
(***************************************************************************)
EXTENDS Units, TLC, Json
VARIABLES i
Init == i \in 1..Len(Units)
Next == UNCHANGED i
Spec == Init /\ [][Next]_i
Unique == \A k \in 1..Len(Units) : k # i => \A j \in 1..Len(Units[i].ids) : \A m \in 1..Len(Units[k].ids) : Units[i].ids[j] # Units[k].ids[m]
Readable == SymbolReadable(Units[i])
ScalePositive == DecCmp(Units[i].scale, <<48>>) > 0
Emit == PrintT("VEC " \o ToJson([op |-> "units.unit", idx |-> i, ids |-> Units[i].ids]))
=============================================================================

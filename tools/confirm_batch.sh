#!/bin/bash
# confirm_batch.sh "<ID> <name>" ... : confirm each seed in its scratch worktree (4 at a time), remove the worktree, print one line per seed
run(){ /verif/tools/confirm_seed.sh $1 $2 > /tmp/wt/$1.confirm.log 2>&1; git -C /repo worktree remove --force /tmp/wt/$1 2>/dev/null; rm -rf /tmp/wt/$1_out /tmp/wt/$1.patch /tmp/wt/$1.demo.rs; }
ARGS=("$@")
n=0
for pair in "${ARGS[@]}"; do set -- $pair; run $1 $2 & n=$((n+1)); if [ $((n % 4)) = 0 ]; then wait; fi; done; wait
for pair in "${ARGS[@]}"; do set -- $pair; L=/tmp/wt/$1.confirm.log
  suite=$(sed -n '/== (i)/,/== (ii)/p' $L | grep -c "test result: ok"); sfail=$(sed -n '/== (i)/,/== (ii)/p' $L | grep -c "FAILED\|^error")
  with=$(sed -n '/== (ii)/,/== (iii)/p' $L | grep -c "FAILED\|^error\|panicked"); without=$(sed -n '/== (iii)/,$p' $L | grep -c "test result: ok"); wofail=$(sed -n '/== (iii)/,$p' $L | grep -c "FAILED\|^error")
  app=$(grep -c "patch applies" $L)
  echo "$1 $2: suite_ok_targets=$suite suite_fail=$sfail demo_with_change_fails=$([ $with -gt 0 ] && echo yes || echo NO) demo_without_ok=$([ $without -gt 0 -a $wofail = 0 ] && echo yes || echo NO) applies=$app"; rm -f $L; done

#!/bin/bash
# confirm_seed.sh <ID> <name>: in the agent's scratch worktree /tmp/wt/<ID>, confirm (i) suite passes with the change,
# (ii) demo fails with it, (iii) demo passes without it; then store under /verif/seeded/<name>/ and remove the worktree.
ID=$1; NAME=$2; W=/tmp/wt/$ID; O=/tmp/wt/${ID}_out; D=/verif/seeded/$NAME
set -u
cd $W || exit 2
[ -f tests/seeded_demo.rs ] || { echo "no demo file"; ls tests | head; exit 2; }
git diff -- src Cargo.toml unit-gen > /tmp/wt/$ID.patch
[ -s /tmp/wt/$ID.patch ] || { echo "empty patch"; exit 2; }
mv tests/seeded_demo.rs /tmp/wt/$ID.demo.rs
echo "== (i) existing suite with the change"; cargo test --workspace --no-fail-fast --offline 2>&1 | grep -E "^test result|FAILED|failed|^error" | head -8
cp /tmp/wt/$ID.demo.rs tests/seeded_demo.rs
echo "== (ii) demo with the change"; timeout 600 cargo test --offline --test seeded_demo 2>&1 | grep -E "^test result|panicked|^error" | tail -3
git apply -R /tmp/wt/$ID.patch
echo "== (iii) demo without the change"; timeout 600 cargo test --offline --test seeded_demo 2>&1 | grep -E "^test result|panicked|^error" | tail -3
mkdir -p $D && cp /tmp/wt/$ID.patch $D/patch.diff && cp /tmp/wt/$ID.demo.rs $D/demo.rs && cp $O/notes.md $D/notes.md 2>/dev/null
git -C /repo apply --check $D/patch.diff && echo "patch applies to /repo"

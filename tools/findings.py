"""Matching of rejected events against /verif/known_findings.json.

An entry suppresses a BAD line only if BOTH its reason pattern matches and its event predicate holds,
so that a different violation of the same property is still reported."""
import re


def walk(v):
    """all abstract values nested in v"""
    if isinstance(v, dict):
        if "k" in v:
            yield v
        for x in v.values():
            yield from walk(x)
    elif isinstance(v, list):
        for x in v:
            yield from walk(x)


def has_single_col_empty_row(e):
    for g in walk(e.get("v")):
        if g.get("k") == "grid" and len(g["cols"]) == 1 and any(len(r) == 0 for r in g["rows"]):
            return True
    return False


def decoded_dt_sub_minute(e):
    for key in ("from_str", "parser", "from_slice"):
        b = e.get(key, {}).get("back") if isinstance(e.get(key), dict) else None
        for v in walk(b):
            if v.get("k") == "dt" and v.get("off", 0) % 60 != 0:
                return True
    return False


def decoded_single_col_empty_row(e):
    for key in ("from_str", "parser"):
        b = e.get(key, {}).get("back") if isinstance(e.get(key), dict) else None
        for g in walk(b):
            if g.get("k") == "grid" and len(g["cols"]) == 1 and any(len(r) == 0 for r in g["rows"]):
                return True
    return False


def filter_dt_sub_minute(e):
    for v in walk(e.get("tree")):
        if v.get("k") == "dt" and v.get("off", 0) % 60 != 0:
            return True
    return False


PREDICATES = {
    "filter_literal_dt_with_sub_minute_offset": filter_dt_sub_minute,
    "decoded_single_col_grid_with_empty_row": decoded_single_col_empty_row,
    "decoded_dt_with_sub_minute_offset": decoded_dt_sub_minute,
    "single_col_grid_with_empty_row": has_single_col_empty_row,
    "any": lambda e: True,
}


def match(known, bad):
    for k in known:
        m = k.get("match", {})
        if "reason_regex" in m and not re.search(m["reason_regex"], bad["reason"]):
            continue
        pred = PREDICATES.get(m.get("event_pred", "any"))
        if pred is None or bad.get("event") is None or not pred(bad["event"]):
            continue
        if "op" in m and bad["event"].get("op") != m["op"]:
            continue
        return k
    return None

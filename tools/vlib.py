#!/usr/bin/env python3
"""Driver of the model-based checks:  ./check <ID> [--tier quick|thorough] [--replay FILE]

Pipeline per property (see DESIGN.md):
  MC   : TLC model-checks the TLA+ specification instance (spec/MC_*.tla) and emits vectors
  RUN  : the Rust harness (harness/, built against /repo's working tree) executes vectors / its own
         random cases against libhaystack and logs one event per call
  TV   : TLC validates the logged events against the specification (spec/Trace_*.tla)
Verdicts are TLC's ("BAD <prop> <event> <reason>" lines); this driver only orchestrates, matches
known findings, writes evidence and replay files.
Exit 0 = held; 1 = VIOLATION line printed; 2 = tool error / timeout of the tooling.
"""
import sys, os, json, re, subprocess, time, hashlib, fcntl, shutil, importlib.util

V = os.path.dirname(os.path.dirname(os.path.abspath(__file__)))
SPEC = os.path.join(V, "spec")
HARNESS = os.path.join(V, "harness")
HS = os.path.join(HARNESS, "target", "release", "hs")
TLCW = os.path.join(V, "tools", "tlcw")


class ToolError(Exception):
    pass


def log(*a):
    print(*a, flush=True)


def sh(cmd, cwd=None, env=None, timeout=None, check=True):
    e = dict(os.environ)
    if env:
        e.update(env)
    p = subprocess.run(cmd, cwd=cwd, env=e, stdout=subprocess.PIPE, stderr=subprocess.STDOUT, timeout=timeout)
    out = p.stdout.decode("utf-8", "replace")
    if check and p.returncode != 0:
        raise ToolError("command failed (%d): %s\n%s" % (p.returncode, " ".join(map(str, cmd)), out[-4000:]))
    return p.returncode, out


def build():
    """(re)build harness + override class against /repo's current working tree; serialised with flock"""
    os.makedirs(os.path.join(V, "out"), exist_ok=True)
    with open(os.path.join(V, "out", ".build.lock"), "w") as lk:
        fcntl.flock(lk, fcntl.LOCK_EX)
        cls = os.path.join(SPEC, "overrides", "HsOverrides.class")
        src = os.path.join(SPEC, "overrides", "HsOverrides.java")
        if not os.path.exists(cls) or os.path.getmtime(cls) < os.path.getmtime(src):
            sh(["javac", "-cp", "/opt/veriftools/tla/tla2tools.jar", "HsOverrides.java"], cwd=os.path.join(SPEC, "overrides"))
        sh([sys.executable, os.path.join(V, "tools", "units2tla.py"), "/repo/unit-gen/units.txt", os.path.join(SPEC, "UnitsDb.tla")])
        lock = os.path.join(HARNESS, "Cargo.lock")
        if not os.path.exists(lock):
            shutil.copy("/repo/Cargo.lock", lock)
        rc, out = sh(["cargo", "build", "--release", "--offline"], cwd=HARNESS,
                     env={"CARGO_NET_OFFLINE": "true"}, check=False, timeout=1800)
        if rc != 0:
            raise ToolError("harness build failed:\n" + out[-6000:])


class Ctx:
    def __init__(self, pid, tier, seed):
        self.pid, self.tier, self.seed = pid, tier, seed
        self.dir = os.path.join(V, "out", pid)
        os.makedirs(self.dir, exist_ok=True)
        self.quick = tier == "quick"
        self.t0 = time.time()
        self.states = 0
        self.transitions = 0
        self.traces = 0          # events accepted by TLC
        self.evaluations = 0
        self.distinct = set()
        self.samples = []
        self.bads = []           # dict(prop, i, reason, event, file)
        self.notes = []
        self.mc_runs = []
        self.exhaustive = False
        self.uid = 0

    def path(self, name):
        return os.path.join(self.dir, name)

    def fresh(self, stem):
        self.uid += 1
        return self.path("%s-%d" % (stem, self.uid))


def write_cfg(path, spec="Spec", consts=None, invariants=(), properties=(), constraint=None, view=None, symmetry=None, deadlock=False):
    lines = ["SPECIFICATION " + spec]
    if consts:
        lines.append("CONSTANTS")
        for k, v in consts.items():
            if str(v).startswith("<-"):
                lines.append("  %s %s" % (k, v))
            else:
                lines.append("  %s = %s" % (k, v))
    if invariants:
        lines.append("INVARIANTS " + " ".join(invariants))
    if properties:
        lines.append("PROPERTIES " + " ".join(properties))
    if constraint:
        lines.append("CONSTRAINT " + constraint)
    if view:
        lines.append("VIEW " + view)
    if symmetry:
        lines.append("SYMMETRY " + symmetry)
    lines.append("CHECK_DEADLOCK " + ("TRUE" if deadlock else "FALSE"))
    with open(path, "w") as f:
        f.write("\n".join(lines) + "\n")


STAT_RE = re.compile(r"(\d+) states generated, (\d+) distinct states found, (\d+) states left on queue")


def tlc_mc(ctx, module, consts=None, invariants=(), properties=(), workers=8, timeout=1200, constraint=None,
           view=None, deadlock=False, want_vectors=True, spec="Spec", simulate=None, coverage=False, env=None, expect_violation=None,
           cover=None):
    """model-check spec/<module>.tla; returns (vectors, stats). Any TLC error = the specification itself is
    violated = tool/spec error (exit 2), never a verdict about libhaystack."""
    cfg = ctx.fresh(module) + ".cfg"
    write_cfg(cfg, spec=spec, consts=consts, invariants=invariants, properties=properties, constraint=constraint,
              view=view, deadlock=deadlock)
    meta = ctx.fresh("meta")
    args = [TLCW, str(timeout), meta, "-workers", str(workers), "-config", cfg]
    if simulate:
        args += ["-simulate", simulate, "-seed", str(ctx.seed)]
    if coverage or cover:
        args += ["-coverage", "1"]
    args.append(module + ".tla")
    t = time.time()
    rc, out = sh(args, cwd=SPEC, check=False, timeout=timeout + 60, env=env)
    with open(ctx.fresh(module) + ".log", "w") as f:
        f.write(out)
    shutil.rmtree(meta, ignore_errors=True)
    if rc == 124:
        raise ToolError("TLC timed out on %s after %ds" % (module, timeout))
    m = STAT_RE.findall(out)
    if expect_violation:
        # negative control: the model must be able to see this violation (guards against a vacuous model)
        if ("Invariant %s is violated" % expect_violation) not in out and expect_violation not in out.split("Error:", 1)[-1][:400]:
            raise ToolError("negative control: TLC did not report %s on %s:\n%s" % (expect_violation, module, tail_of(out)))
        ctx.mc_runs.append({"module": module, "constants": consts or {}, "negative_control": expect_violation, "reported": True})
        return [], out
    ok = ("No error has been found" in out) or (simulate and rc == 0)
    if not ok:
        raise ToolError("TLC reported an error on %s (specification-level):\n%s" % (module, tail_of(out)))
    gen, dist = (int(m[-1][0]), int(m[-1][1])) if m else (0, 0)
    if simulate:
        ms = re.search(r"(\d+) states checked", out)
        gen = dist = int(ms.group(1)) if ms else 0
    ctx.states += dist
    ctx.transitions += gen
    ctx.mc_runs.append({"module": module, "constants": consts or {}, "distinct_states": dist, "states_generated": gen,
                        "wall_s": round(time.time() - t, 1), "invariants": list(invariants), "properties": list(properties)})
    if cover:
        dead = uncovered(out, cover[0], cover[1])
        ctx.mc_runs[-1]["coverage"] = {"module": cover[0], "never_evaluated": len(dead)}
        if dead:
            raise ToolError("vacuity guard: %s has expressions TLC never evaluated in this model (an action or branch that is "
                            "never taken means the invariants were not exercised there):\n  %s" % (cover[0], "\n  ".join(dead[:12])))
    vecs = []
    if want_vectors:
        for line in out.splitlines():
            if line.startswith('"VEC '):
                vecs.append(json.loads(json.loads(line)[4:]))
    return vecs, out


COVER_RE = re.compile(r"^\s*\|*line (\d+), col (\d+) to line (\d+), col (\d+) of module (\w+): 0\s*$")


def uncovered(out, module, allow):
    """source text of the expressions of `module` with a zero count in TLC's -coverage statistics, minus those matching
    one of the `allow` regexes (branches that are unreachable by construction, stated at the call site)"""
    src = open(os.path.join(SPEC, module + ".tla")).read().splitlines()
    dead = []
    seen = set()
    for line in out.splitlines():
        m = COVER_RE.match(line)
        if not m or m.group(5) != module:
            continue
        l1, c1, l2, c2 = (int(m.group(i)) for i in range(1, 5))
        if (l1, c1, l2, c2) in seen:
            continue
        seen.add((l1, c1, l2, c2))
        text = " ".join(src[l1 - 1:l2])[:200] if l1 != l2 else src[l1 - 1][c1 - 1:c2]
        if any(re.search(a, text) for a in allow):
            continue
        dead.append("%s.tla:%d:%d  %s" % (module, l1, c1, text.strip()[:140]))
    return dead


def tail_of(out, n=40):
    lines = [l for l in out.splitlines() if not l.startswith('"VEC ')]
    return "\n".join(lines[-n:])


def write_ndjson(path, items):
    with open(path, "w") as f:
        for it in items:
            f.write(json.dumps(it, separators=(",", ":")) + "\n")


def read_ndjson(path):
    with open(path) as f:
        return [json.loads(l) for l in f if l.strip()]


def hs(ctx, args, timeout=3600):
    rc, out = sh([HS] + args, check=False, timeout=timeout)
    if rc != 0:
        raise ToolError("harness failed (%d): hs %s\n%s" % (rc, " ".join(args), out[-3000:]))
    return out


def hs_run(ctx, vectors, stem="vec"):
    vin = ctx.fresh(stem) + ".in.ndjson"
    vout = ctx.fresh(stem) + ".ev.ndjson"
    write_ndjson(vin, vectors)
    hs(ctx, ["run", "--in", vin, "--out", vout])
    return vout


def hs_rec(ctx, domain, n, extra=(), stem="rec"):
    vout = ctx.fresh(stem) + ".ev.ndjson"
    hs(ctx, ["rec", domain, "--n", str(n), "--seed", str(ctx.seed), "--out", vout] + list(extra))
    return vout


BAD_RE = re.compile(r"^BAD (\S+) (\d+) (.*)$", re.S)


def take_lib_panics(ctx, events):
    """lib.panic events (a panic inside libhaystack that escaped an operation's own monitors) are violations of the
    property being checked: the operation gave no answer. They are judged here, not by a trace specification."""
    rest = []
    for e in events:
        if e.get("op") == "lib.panic":
            ctx.bads.append({"prop": ctx.pid, "i": e.get("i", 0), "module": "driver",
                             "reason": '<<"panic inside libhaystack", "%s", "%s", "%s">>' % (e.get("vec_op"), str(e.get("msg"))[:160].replace('"', "'"), e.get("at")),
                             "event": e})
        else:
            rest.append(e)
    return rest


def tlc_trace(ctx, module, events_path, shards=1, timeout=1800, per_shard_min=200, max_bytes=48 << 20):
    """validate an event file with spec/<module>.tla; returns list of bads. The events are cut into parts (by count, and so that
    no part exceeds max_bytes of JSON - TLC's deserialiser holds a whole part in memory) and the parts are validated by at most
    `shards` TLC processes at a time. max_bytes=None: never cut by size (stateful traces)."""
    events = take_lib_panics(ctx, read_ndjson(events_path))
    n = len(events)
    if n == 0:
        return []
    shards = max(1, min(shards, n // per_shard_min or 1))
    size = (n + shards - 1) // shards
    cfg = ctx.fresh(module) + ".cfg"
    write_cfg(cfg)
    parts = []
    cur, cur_b = [], 0
    for e in events:
        b = len(json.dumps(e)) + 1 if max_bytes else 0
        if cur and (len(cur) >= size or (max_bytes and cur_b + b > max_bytes)):
            parts.append(cur)
            cur, cur_b = [], 0
        cur.append(e)
        cur_b += b
    if cur:
        parts.append(cur)
    jobs = []
    for part in parts:
        pth = ctx.fresh("shard") + ".ndjson"
        write_ndjson(pth, part)
        jobs.append((part, ctx.fresh("meta"), pth))

    def run(job):
        part, meta, pth = job
        env = dict(os.environ)
        env["TRACE"] = pth
        env["TLC_XMX"] = "-Xmx3g"
        p = subprocess.Popen([TLCW, str(timeout), meta, "-workers", "1", "-config", cfg, module + ".tla"], cwd=SPEC, env=env,
                             stdout=subprocess.PIPE, stderr=subprocess.STDOUT)
        out = p.communicate()[0].decode("utf-8", "replace")
        shutil.rmtree(meta, ignore_errors=True)
        return p.returncode, out

    import concurrent.futures
    with concurrent.futures.ThreadPoolExecutor(max_workers=shards) as ex:
        results = list(ex.map(run, jobs))
    bads = []
    for (part, meta, pth), (rc, out) in zip(jobs, results):
        if rc == 124:
            raise ToolError("TLC timed out validating %s" % pth)
        consumed = None
        by_i = {e["i"]: e for e in part}
        for line in out.splitlines():
            if line.startswith('"BAD '):
                try:
                    s = json.loads(line, strict=False)
                except ValueError:
                    s = line.strip().strip('"').replace('\\"', '"')
                m = BAD_RE.match(s)
                i = int(m.group(2))
                bads.append({"prop": m.group(1), "i": i, "reason": m.group(3), "event": by_i.get(i), "module": module})
            elif line.startswith('"CONSUMED '):
                consumed = int(json.loads(line).split()[1])
        if consumed != len(part) or "No error has been found" not in out:
            with open(pth + ".tlc.log", "w") as f:
                f.write(out)
            raise ToolError("trace validation of %s did not consume the whole trace (%s of %d):\n%s" %
                            (pth, consumed, len(part), tail_of(out)))
        m = STAT_RE.findall(out)
        if m:
            ctx.states += int(m[-1][1])
            ctx.transitions += int(m[-1][0])
        bad_events = {b["i"] for b in bads}
        ctx.traces += len([e for e in part if e["i"] not in bad_events])
        os.remove(pth)
    spec_bads = [b for b in bads if b["prop"] == "SPEC"]
    if spec_bads:
        raise ToolError("specification self-check failed on %d events, e.g. %s" % (len(spec_bads), json.dumps(spec_bads[0])[:1500]))
    ctx.evaluations += n
    return bads


def tlc_trace_stateful(ctx, module, events_path, reset_op, shards=8, timeout=1800):
    """like tlc_trace, but shards are cut only in front of `reset_op` events (the trace spec keeps state between them)"""
    events = take_lib_panics(ctx, read_ndjson(events_path))
    if not events:
        return []
    groups = []
    for e in events:
        if e.get("op") == reset_op or not groups:
            groups.append([])
        groups[-1].append(e)
    shards = max(1, min(shards, len(groups)))
    buckets = [[] for _ in range(shards)]
    sizes = [0] * shards
    for g in sorted(groups, key=len, reverse=True):
        k = sizes.index(min(sizes))
        buckets[k].extend(g)
        sizes[k] += len(g)
    bads = []
    for b in buckets:
        if b:
            pth = ctx.fresh("st") + ".ndjson"
            write_ndjson(pth, b)
            ctx._pending = getattr(ctx, "_pending", []) + [pth]
    # run the buckets in parallel through tlc_trace's machinery: one TLC per bucket file
    import concurrent.futures
    with concurrent.futures.ThreadPoolExecutor(max_workers=shards) as ex:
        futs = [ex.submit(tlc_trace, ctx, module, p, 1, timeout, 200, None) for p in ctx._pending]
        for f in futs:
            bads += f.result()
    ctx._pending = []
    return bads


def note_events(ctx, events_path, key=lambda e: e.get("v", e.get("in")), trivial=lambda e: False, nsamples=3):
    for e in read_ndjson(events_path):
        if not trivial(e):
            ctx.distinct.add(hashlib.sha1(json.dumps([e.get("op"), key(e)], sort_keys=True).encode()).hexdigest())
        if len(ctx.samples) < nsamples and not trivial(e):
            s = json.dumps(e)
            ctx.samples.append(e if len(s) < 1500 else {"op": e.get("op"), "truncated": s[:1500]})


# ---------------------------------------------------------------------------------------------
# known findings
def load_known():
    p = os.path.join(V, "known_findings.json")
    if not os.path.exists(p):
        return []
    return json.load(open(p))


def finish(ctx, level_rule, assumptions, exhaustive=False, trusted=None):
    import findings
    pid = ctx.pid
    mine = [b for b in ctx.bads if b["prop"] == pid]
    others = {}
    for b in ctx.bads:
        if b["prop"] != pid:
            others[b["prop"]] = others.get(b["prop"], 0) + 1
    known = [k for k in load_known() if k.get("property") == pid and k.get("status") == "known"]
    hit = {}
    violations = []
    for b in mine:
        k = findings.match(known, b)
        if k is not None:
            hit.setdefault(k["id"], (k, 0))
            hit[k["id"]] = (k, hit[k["id"]][1] + 1)
        else:
            violations.append(b)
    for kid, (k, n) in sorted(hit.items()):
        log("KNOWN-FINDING: property=%s %s [%s] (%d events)" % (pid, k["what"], kid, n))
    if others:
        log("note: events also rejected under other ids (other properties are reported by their own checks; X.. ids are "
            "behaviour the specification covers beyond the listed properties - reported, never an alarm): %s" % others)
        with open(ctx.path("other-bads.json"), "w") as f:
            keep, seen = [], {}
            for b in ctx.bads:          # up to 60 per id, so that a rare id is not crowded out by a frequent one
                if b["prop"] != pid and seen.get(b["prop"], 0) < 60:
                    seen[b["prop"]] = seen.get(b["prop"], 0) + 1
                    keep.append(b)
            json.dump(keep, f, indent=1, default=str)
    replay = None
    if violations:
        # group by normalised reason; one replay file per group (first few)
        groups = {}
        for b in violations:
            g = re.sub(r"\d+", "#", b["reason"])[:160]
            groups.setdefault(g, []).append(b)
        n = 0
        for g, bs in sorted(groups.items(), key=lambda kv: -len(kv[1])):
            n += 1
            if n > 20:
                break
            b = bs[0]
            pth = ctx.path("violation-%d.json" % n)
            with open(pth, "w") as f:
                json.dump({"property": pid, "reason": b["reason"], "count_in_group": len(bs), "trace_module": b["module"],
                           "vector": b["event"]}, f)
            if replay is None:
                replay = pth
            log("violation group (%d events): %s" % (len(bs), b["reason"][:300]))
    wall = round(time.time() - ctx.t0, 1)
    cov = {
        "states": max(ctx.states, 0), "transitions": max(ctx.transitions, 0),
        "traces_validated_against_impl": ctx.traces,
        "evaluations": ctx.evaluations, "distinct_nontrivial": len(ctx.distinct),
        "rule": level_rule, "samples": ctx.samples[:5] or [{"note": "no implementation events in this run"}],
        "exhaustive": bool(exhaustive), "model_checking_runs": ctx.mc_runs,
        "known_findings_hit": {k: v[1] for k, v in hit.items()}, "notes": ctx.notes,
        "rejected_under_other_ids": others,
        "trusted_base": trusted or ["TLC 1.8.0 + CommunityModules", "spec/overrides/HsOverrides.java (arithmetic only)",
                                    "harness alpha/gamma projection (harness/src/absval.rs)"],
        "checker_cmd": "./check %s --tier %s" % (pid, ctx.tier),
    }
    ev = {"property_id": pid, "tier": ctx.tier, "seed": ctx.seed, "level": "model_checking", "coverage": cov,
          "assumptions": assumptions, "wall_s": wall, "violations": len(violations)}
    os.makedirs(os.path.join(V, "evidence"), exist_ok=True)
    with open(os.path.join(V, "evidence", pid + ".json"), "w") as f:
        json.dump(ev, f, indent=1)
    log("%s %s: states=%d transitions=%d events=%d accepted=%d distinct=%d violations=%d known=%d wall=%ss" % (
        pid, ctx.tier, ctx.states, ctx.transitions, ctx.evaluations, ctx.traces, len(ctx.distinct), len(violations),
        sum(v[1] for v in hit.values()), wall))
    if violations:
        log("VIOLATION property=%s replay=%s" % (pid, replay))
        return 1
    return 0


def replay(pid, path):
    """re-execute the vector of a violation file against the current tree and re-validate it with TLC"""
    import props
    d = json.load(open(path))
    ctx = Ctx(pid, "quick", 0)
    build()
    vec = d["vector"]
    ev = hs_run(ctx, [vec], stem="replay")
    ctx.bads += tlc_trace(ctx, d["trace_module"], ev)
    mine = [b for b in ctx.bads if b["prop"] == pid]
    for b in mine:
        log("replayed: BAD %s %s" % (b["prop"], b["reason"][:600]))
    if mine:
        log("VIOLATION property=%s replay=%s" % (pid, path))
        return 1
    log("replay: the recorded vector is accepted on the current tree")
    return 0


def main():
    args = sys.argv[1:]
    if not args:
        print(__doc__)
        return 2
    pid = args[0]
    tier = os.environ.get("VERIF_TIER", "quick")
    if "--tier" in args:
        tier = args[args.index("--tier") + 1]
    seed = int(os.environ.get("VERIF_SEED", "1"))
    try:
        if "--replay" in args:
            return replay(pid, args[args.index("--replay") + 1])
        import props
        if pid not in props.CHECKS:
            log("unknown property " + pid)
            return 2
        build()
        ctx = Ctx(pid, tier, seed)
        # clean old violation files
        for f in os.listdir(ctx.dir):
            if f.startswith("violation-"):
                os.remove(os.path.join(ctx.dir, f))
        return props.CHECKS[pid](ctx)
    except ToolError as e:
        log("TOOL-ERROR: " + str(e))
        return 2
    except subprocess.TimeoutExpired as e:
        log("TOOL-ERROR: timeout " + str(e))
        return 2
    except Exception:
        # a bug in the machinery itself is never a verdict about libhaystack: exit 2, not python's 1
        import traceback
        log("TOOL-ERROR: internal error of the check\n" + traceback.format_exc())
        return 2


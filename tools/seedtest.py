#!/usr/bin/env python3
"""seedtest.py <seed-dir> <check-id>... : apply /verif/seeded/<x>/patch.diff to /repo, run the quick checks, undo.
Prints which checks raise a VIOLATION. /repo must be clean before; it is restored afterwards (git checkout -- . ; git clean of new files)."""
import subprocess, sys, os, json, time
d = os.path.abspath(sys.argv[1])
checks = sys.argv[2:]
tier = os.environ.get("SEED_TIER", "quick")
def sh(cmd, **kw):
    return subprocess.run(cmd, shell=True, stdout=subprocess.PIPE, stderr=subprocess.STDOUT, text=True, **kw)
st = sh("git -C /repo status --porcelain").stdout.strip()
if st:
    print("REPO NOT CLEAN:\n" + st); sys.exit(2)
import shutil
BK = "/verif/out/.evidence-before-seedtest"
shutil.rmtree(BK, ignore_errors=True)
shutil.copytree("/verif/evidence", BK)        # evidence describes the unchanged tree only: put back afterwards
r = sh("git -C /repo apply %s/patch.diff" % d)
if r.returncode != 0:
    print("patch does not apply:\n" + r.stdout); sys.exit(2)
res = {}
try:
    for c in checks:
        t = time.time()
        r = sh("cd /verif && ./check %s --tier %s" % (c, tier))
        viol = [l for l in r.stdout.splitlines() if l.startswith("VIOLATION") or l.startswith("violation group")]
        res[c] = {"exit": r.returncode, "wall_s": round(time.time() - t), "lines": viol[:6], "tail": r.stdout.splitlines()[-1] if r.stdout else ""}
        print(c, "exit", r.returncode, res[c]["wall_s"], "s")
        for l in viol[:4]:
            print("   ", l[:220])
        if r.returncode == 2:
            print("   TOOL:", r.stdout[-600:])
finally:
    sh("git -C /repo checkout -- . && git -C /repo clean -fdq -- src tests")
    shutil.rmtree("/verif/evidence", ignore_errors=True)
    shutil.copytree(BK, "/verif/evidence")
    print("repo restored:", sh("git -C /repo status --porcelain").stdout.strip() or "clean")
p = os.path.join(d, "last_run.json")
old = json.load(open(p)) if os.path.exists(p) else {}
old.update(res)
json.dump(old, open(p, "w"), indent=1)

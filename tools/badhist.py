import re,collections,json,sys
c=collections.Counter(); ex={}
for line in open(sys.argv[1]):
    if not line.startswith("\""): continue
    s=json.loads(line)
    m=re.match(r'BAD (\S+) (\d+) (.*)',s)
    if not m: continue
    r=re.sub(r'\d+','#',m.group(3))[:150]
    c[(m.group(1),r)]+=1; ex.setdefault((m.group(1),r),m.group(2))
for k,v in c.most_common(60): print(v,k,ex[k])

"""Per-property pipelines. Each function takes a vlib.Ctx and returns the exit code."""
import json, os
from vlib import tlc_mc, tlc_trace, tlc_trace_stateful, hs_run, hs_rec, note_events, finish, ToolError, log, read_ndjson, write_ndjson

SCALAR_TRIVIAL = {"null", "marker", "remove", "na", "bool"}


def trivial_value(e):
    v = e.get("v")
    return isinstance(v, dict) and v.get("k") in SCALAR_TRIVIAL


def zinc_universe(ctx, depth):
    vecs, out = tlc_mc(ctx, "MC_Zinc", consts={"MaxDepth": depth, "EmitVectors": "TRUE"},
                       invariants=["WellFormed", "RoundTrip", "CanonIsPlain", "Emit"], workers=8, timeout=3000)
    if len(vecs) != ctx.mc_runs[-1]["distinct_states"]:
        raise ToolError("MC_Zinc emitted %d vectors for %d states" % (len(vecs), ctx.mc_runs[-1]["distinct_states"]))
    return vecs


def c01(ctx):
    depth = 2 if ctx.quick else 3
    vecs = zinc_universe(ctx, depth)
    rt = [{"op": "zinc.rt", "v": x["v"]} for x in vecs]
    ev1 = hs_run(ctx, rt, "gen")
    ctx.bads += tlc_trace(ctx, "Trace_Zinc", ev1, shards=12)
    note_events(ctx, ev1, trivial=trivial_value)
    n = 4000 if ctx.quick else 80000
    ev2 = hs_rec(ctx, "zinc", n, ["--depth", "3" if ctx.quick else "5"])
    ctx.bads += tlc_trace(ctx, "Trace_Zinc", ev2, shards=14)
    note_events(ctx, ev2, trivial=trivial_value)
    return finish(ctx,
                  "GEN: every state of MC_Zinc (values built by constructor actions to depth %d) encoded+decoded by libhaystack; "
                  "REC: %d seeded random well-formed values (depth<=%s, arbitrary Unicode, random f64 bits, all units, all "
                  "unambiguous zones); TLC (Trace_Zinc) requires outcome=ok and Same(back,v). distinct = distinct input values, "
                  "excluding payload-free scalars" % (depth, n, "3" if ctx.quick else "5"),
                  ["chrono-tz offsets are facts", "alpha/gamma projection is faithful"])


def _jt(x):
    """python value -> abstract JSON tree (dict -> object with members in insertion order)"""
    cp = lambda t: [ord(ch) for ch in t]
    if x is None:
        return {"j": "null"}
    if isinstance(x, bool):
        return {"j": "bool", "b": x}
    if isinstance(x, (int, float)):
        return {"j": "num", "lit": cp(repr(x))}
    if isinstance(x, str):
        return {"j": "str", "s": cp(x)}
    if isinstance(x, list):
        return {"j": "arr", "items": [_jt(i) for i in x]}
    return {"j": "obj", "mem": [[cp(k), _jt(v)] for k, v in x.items()]}


def hayson_grid_shapes():
    """Hayson grid documents no encoder of ours writes but a decoder may accept: rows with keys that are no column, columns no
    row uses, duplicate column names, meta absent / empty / with ver / with other tags, column meta, rows of other JSON types,
    nested grids - stepped through decode / re-encode / decode (C11) and judged against Hayson.tla where it decides (C05)"""
    num = {"_kind": "number", "val": 100, "unit": "m"}
    cols = [[{"name": "dis"}], [{"name": "dis"}, {"name": "area"}], [{"name": "dis", "meta": {"x": 1}}], [{"name": "dis"}, {"name": "dis"}], []]
    rows = [[], [{"dis": "Site"}], [{"dis": "Site", "area": num}, {"dis": "Other"}], [{"area": num}], [{"dis": "a", "Dis": "b", "navname": "c"}],
            [{}], [{"dis": None}], [{"dis": {"_kind": "grid", "meta": {"ver": "3.0"}, "cols": [{"name": "a"}], "rows": [{"a": 1, "b": 2}]}}]]
    metas = [None, {}, {"ver": "3.0"}, {"ver": "2.0", "m": {"_kind": "marker"}}, {"foo": "bar"}]
    docs = []
    for c in cols:
        for r in rows:
            for m in metas:
                d = {"_kind": "grid"}
                if m is not None:
                    d["meta"] = m
                d["cols"] = c
                d["rows"] = r
                docs.append(d)
    docs += [{"_kind": "grid", "cols": [{"name": "a"}], "rows": [1, "x", [], None]}, {"_kind": "grid", "rows": [], "cols": [{"name": "a"}], "meta": {}},
             {"rows": [{"a": 1}], "cols": [{"name": "a"}], "_kind": "grid"}, {"_kind": "grid", "meta": {}, "cols": [{"name": "a"}]},
             {"_kind": "grid", "meta": {}, "rows": [{"a": 1}]}, [{"_kind": "grid", "meta": {}, "cols": [{"name": "a"}], "rows": [{"a": 1, "z": 2}]}]]
    return [{"op": "dec.json.tree", "tree": _jt(d), "src": "grid-shape"} for d in docs]


def zinc_mutant_vectors(ctx, q, styles):
    """prefixes and single edits of the spec writer's documents: quick = depth-0 documents, sampled replacement set;
    thorough = depth-0 documents with the full replacement set plus every sixth depth-1 document with the sampled set
    (the full set on all depth-1 documents is several million events; every third was 5.6 GB of events for three styles once
    the universe had grown by the later families)"""
    if q:
        return [{"op": "dec.zinc.mutants", "text": t, "full": False} for t in texts_of_universe(ctx, 0, styles)]
    v = [{"op": "dec.zinc.mutants", "text": t, "full": True} for t in texts_of_universe(ctx, 0, styles)]
    v += [{"op": "dec.zinc.mutants", "text": t, "full": False} for t in texts_of_universe(ctx, 1, styles)[::6]]
    return v


def text_family(ctx, mode, big):
    """MC_Texts structured families: "esc" (string / uri escapes) and "num" (number spellings)"""
    v, _ = tlc_mc(ctx, "MC_Texts", consts={"MaxLen": 4 if big else 3, "Mode": '"%s"' % mode, "EmitVectors": "TRUE", "KindFirst": "TRUE"},
                  invariants=["ReaderTotal", "Emit"], workers=8, timeout=3000)
    return v


def hayson_field_docs():
    """the field family for the Hayson scalar objects (the JSON mirror of MC_Texts mode fld): date / time / dateTime / coord /
    number objects whose members take edge and out-of-range spellings one at a time - calendar days a month does not have,
    hour 24, second 60, timestamps without an offset that fall into the skipped or the repeated hour of their zone, offsets that
    disagree with the zone, unknown and empty zones, members of the wrong JSON type"""
    docs = []
    dates = ["2021-02-28", "2021-02-29", "2021-02-30", "2021-04-31", "2021-13-01", "2021-00-10", "2021-01-00", "2021-01-32", "0000-01-01",
             "9999-12-31", "10000-01-01", "+12021-01-01", "2021-2-3", "21-01-01", "", "2021-01-01T00:00:00Z"]
    times = ["00:00:00", "23:59:59", "23:59:60", "23:59:60.5", "24:00:00", "12:60:00", "12:00", "12", "", "12:00:00.123456789", "12:00:00.1234567891",
             "12:00:00.", "1:2:3", "-1:00:00", "12:00:00Z"]
    stamps = ["2021-03-14T02:30:00", "2021-11-07T01:30:00", "2021-03-28T01:15:00.5", "2021-06-15T12:00:00", "2021-03-14T02:30:00-05:00",
              "2021-03-14T02:30:00-04:00", "2021-11-07T01:30:00-04:00", "2021-11-07T01:30:00-05:00", "2021-06-15T12:00:00Z", "2021-06-15T12:00:00+00:00",
              "2021-06-15T12:00:00+05:30", "2021-06-15T12:00:00+14:00", "2021-06-15T12:00:00+24:00", "2021-06-15t12:00:00z", "2021-06-15 12:00:00Z",
              "2021-06-15T24:00:00Z", "2021-06-15T23:59:60Z", "2021-02-30T00:00:00Z", "2021-06-15T12:00:00.123456789123Z", "2021-06-15T12:00Z", "2021-06-15", ""]
    zones = [None, "New_York", "London", "UTC", "Kolkata", "Foo", "", "GMT+5", "Etc/GMT+5", "America/New_York", 5]
    for d in dates:
        docs.append({"_kind": "date", "val": d})
    for t in times:
        docs.append({"_kind": "time", "val": t})
    for st in stamps:
        for z in zones:
            docs.append({"_kind": "dateTime", "val": st} if z is None else {"_kind": "dateTime", "val": st, "tz": z})
    for bad in (None, 5, True, [], {}, ["2021-01-01"]):
        docs += [{"_kind": "date", "val": bad}, {"_kind": "time", "val": bad}, {"_kind": "dateTime", "val": bad, "tz": "UTC"},
                 {"_kind": "coord", "lat": bad, "lng": 1}, {"_kind": "number", "val": bad}, {"_kind": "number", "val": 1, "unit": bad},
                 {"_kind": "ref", "val": bad}, {"_kind": "symbol", "val": bad}, {"_kind": "uri", "val": bad}, {"_kind": "xstr", "type": bad, "val": "x"},
                 {"_kind": "xstr", "type": "Bin", "val": bad}, {"_kind": "grid", "cols": bad, "rows": []}, {"_kind": "grid", "cols": [{"name": "a"}], "rows": bad},
                 {"_kind": "grid", "meta": bad, "cols": [{"name": "a"}], "rows": []}, {"_kind": "grid", "cols": [{"name": bad}], "rows": []},
                 {"_kind": "grid", "cols": [{"name": "a", "meta": bad}], "rows": []}, {"_kind": "grid", "cols": [bad], "rows": [bad]}, {"_kind": bad}]
    for la, ln in ((90, 180), (-90, -180), (90.1, 0), (0, 180.5), (-91, 0), ("1", "2"), (1e400, 0), (None, None)):
        docs.append({"_kind": "coord", "lat": la, "lng": ln})
    out = []
    for d in docs:
        out.append({"op": "dec.json.tree", "tree": _jt(d), "src": "fld"})
        out.append({"op": "dec.json.tree", "tree": _jt([d, {"a": d}]), "src": "fld"})
        out.append({"op": "dec.json.tree", "tree": _jt({"_kind": "grid", "cols": [{"name": "a"}], "rows": [{"a": d}]}), "src": "fld"})
    return out


def hayson_foreign_values():
    """what Hayson can say and Zinc cannot: xstr types that are no capitalised name, ref / symbol ids outside the id alphabet,
    tag / column / meta names that are no Zinc tag names, units outside the database, strings with NUL / astral / line separator
    characters. A decoder may accept them; whatever it accepts must re-encode stably (C11), must not make the other encoder or
    Display panic (C10) and must not take the process down through the C API (C18)."""
    names = ["a b", "A", "", "\u00e9", "a\u0000b", "a-b", "1a", "a.b", "$x", "a\"b"]
    ids = ["a b", "", "\u00e9", "a\u0000b", "a\"b", "a\nb"]
    docs = [{"_kind": "xstr", "type": t, "val": "text/plain"} for t in ("bin", "color", "\u00e9clair", "", "b\u0000in", "1x", "a b", "bIN")]
    for i in ids:
        docs += [{"_kind": "ref", "val": i}, {"_kind": "ref", "val": "r", "dis": i}, {"_kind": "symbol", "val": i}, {"_kind": "uri", "val": i},
                 {"_kind": "xstr", "type": "Bin", "val": i}]
    for n in names:
        docs += [{n: 1}, {"_kind": "grid", "cols": [{"name": n}], "rows": [{n: "x"}]},
                 {"_kind": "grid", "meta": {n: "m"}, "cols": [{"name": "a", "meta": {n: 1}}], "rows": []}]
    docs += [{"_kind": "number", "val": 1, "unit": u} for u in ("zorkmid", "", "a b", "\u0000", "\u00b0")]
    docs += ["a\u0000b", "\U0001F600", "\u2028", ""]
    return docs


def hayson_foreign_docs():
    out = []
    for d in hayson_foreign_values():
        out.append({"op": "dec.json.tree", "tree": _jt(d), "src": "foreign"})
        out.append({"op": "dec.json.tree", "tree": _jt([d, {"k": d}]), "src": "foreign"})
    return out


def long_token_vectors(quick):
    """the long-token family for the decoders (the mirror of C10's enc.long): every slot of the Zinc / Hayson grammars where a
    token of free length can stand, filled with k ASCII characters followed by n multi-byte characters (2-, 3- and 4-byte), and
    with raw 0xFF bytes - so that every fixed-size cut (an error message that quotes the first N bytes, a look-ahead window, a
    buffer boundary) meets a character boundary at every alignment"""
    ns = (1, 2, 5, 6, 7, 8, 9, 15, 16, 17, 21, 31, 32, 33) if quick else tuple(range(1, 41)) + (63, 64, 65, 127, 128, 129, 255, 257)
    zinc_slots = ['1%s', '-4.5e3%s', '12_%s', '@%s', '@a "%s"', '^%s', '"%s"', '`%s`', '{%s:1}', '{a%s}', '{a:1%s}', '%s("x")', 'Foo("%s")',
                  '%s', 'X%s', '[1%s]', 'ver:"3.0"\n%s\n1\n', 'ver:"3.0" %s:1\na\n1\n', 'ver:"3.0"\na\n%s\n', 'ver:"3.0"\na,b\n3,4W%s\n',
                  'ver:"%s"\na\n', '2021-01-%s', '2021-01-01T00:00:00Z %s', '2021-01-01T00:00:00+01:00 %s', '12:00:%s', 'C(%s,1)', 'C(1,2%s)', '"\\%s"', '`\\%s`']
    json_slots = ['{"_kind":"number","val":1,"unit":"%s"}', '{"_kind":"%s"}', '{"_kind":"ref","val":"%s"}', '{"_kind":"ref","val":"a","dis":"%s"}',
                  '{"_kind":"symbol","val":"%s"}', '{"_kind":"uri","val":"%s"}', '{"_kind":"xstr","type":"%s","val":"x"}', '{"_kind":"date","val":"%s"}',
                  '{"_kind":"time","val":"12:00:%s"}', '{"_kind":"dateTime","val":"2021-01-01T00:00:00Z","tz":"%s"}', '{"_kind":"dateTime","val":"%s"}',
                  '{"_kind":"coord","lat":1,"lng":"%s"}', '{"%s":1}', '"%s"', '{"_kind":"grid","cols":[{"name":"%s"}],"rows":[]}',
                  '{"_kind":"grid","meta":{"ver":"%s"},"cols":[{"name":"a"}],"rows":[]}', '{"_kind":"number","val":"%s"}', '%s']
    out = []
    for fmt, slots in (("dec.zinc", zinc_slots), ("dec.json", json_slots)):
        for sl in slots:
            for ch in ("\u00e9", "\u20ac", "\U0001F600"):
                for k in range(4):
                    for n in ns:
                        out.append({"op": fmt, "text": [ord(c) for c in sl % ("a" * k + ch * n)], "src": "long"})
            pre, post = sl.split("%s")
            for k in range(2):
                for n in ns:
                    out.append({"op": fmt, "utf8": False, "text": list(pre.encode()) + [97] * k + [255] * n + list(post.encode()), "src": "long"})
    return out


def c04(ctx):
    # every spelling of every state: depth 2 in both tiers (depth 3 x 10 spellings is several million read events); the
    # thorough tier deepens the random values, the families and the number of recorded values instead
    depth = 2
    vecs = zinc_universe(ctx, depth)
    names = ["plain", "sp+comma", "tabsp+trail", "crlf+endnl", "uni+dot0", "UNI+e0", "raw+E+0", "shift+endnl", "us", "alt"]
    reads = []
    for x in vecs:
        seen = set()
        for i, t in enumerate(x["texts"]):
            key = json.dumps(t)
            if key in seen:
                continue
            seen.add(key)
            reads.append({"op": "zinc.read", "v": x["v"], "text": t, "st": names[i]})
    rt = [{"op": "zinc.rt", "v": x["v"]} for x in vecs]
    ev1 = hs_run(ctx, reads + rt, "gen")
    ctx.bads += tlc_trace(ctx, "Trace_Zinc", ev1, shards=14)
    note_events(ctx, ev1, key=lambda e: [e.get("v"), e.get("text")], trivial=trivial_value)
    n = 3000 if ctx.quick else 60000
    ev2 = hs_rec(ctx, "zinc", n, ["--depth", "3" if ctx.quick else "5"])
    ctx.bads += tlc_trace(ctx, "Trace_Zinc", ev2, shards=14)
    note_events(ctx, ev2, trivial=trivial_value)
    # sentences the writers never produce: the number and escape families of MC_Texts, read by the TLA+ grammar reader and by
    # libhaystack (Trace_Total: a decidable sentence must be accepted and denote the same value)
    fam = text_family(ctx, "num", True) + text_family(ctx, "esc", not ctx.quick) + text_family(ctx, "fld", True)
    ev3 = hs_run(ctx, fam, "fam")
    ctx.bads += tlc_trace(ctx, "Trace_Total", ev3, shards=14)
    note_events(ctx, ev3, key=lambda e: e.get("text"))
    return finish(ctx,
                  "spec writes / libhaystack reads: every distinct spelling (10 styles) of every MC_Zinc state (depth %d) decoded by "
                  "libhaystack, TLC requires Same(decoded, v); libhaystack writes / spec reads: the text libhaystack emits for every "
                  "state and for %d random values must satisfy ZincDenotes(text, v) (the TLA+ grammar reader); grammar families: every "
                  "number spelling built from sign x digits x fraction x exponent x unit parts with `_` separators in every digit run, "
                  "and every string / uri escape, in list / dict / grid-cell frames - read by the TLA+ reader and by libhaystack. "
                  "distinct = distinct (value, text) pairs excluding payload-free scalars" % (depth, n),
                  ["Zinc.tla is a faithful transcription of the published grammar; debatable forms (optional uri escapes, "
                   "\\u surrogate pairs, bare CR) are never written by the spec writer"])


def hayson_universe(ctx, depth):
    vecs, out = tlc_mc(ctx, "MC_Hayson", consts={"MaxDepth": depth, "EmitVectors": "TRUE"},
                       invariants=["RoundTrip", "Emit"], workers=8, timeout=3000)
    if len(vecs) != ctx.mc_runs[-1]["distinct_states"]:
        raise ToolError("MC_Hayson emitted %d vectors for %d states" % (len(vecs), ctx.mc_runs[-1]["distinct_states"]))
    return vecs


def c02(ctx):
    depth = 2 if ctx.quick else 3
    vecs = hayson_universe(ctx, depth)
    ev1 = hs_run(ctx, [{"op": "hayson.rt", "v": x["v"]} for x in vecs], "gen")
    ctx.bads += tlc_trace(ctx, "Trace_Hayson", ev1, shards=12)
    note_events(ctx, ev1, trivial=trivial_value)
    n = 4000 if ctx.quick else 80000
    ev2 = hs_rec(ctx, "hayson", n, ["--depth", "3" if ctx.quick else "5"])
    ctx.bads += tlc_trace(ctx, "Trace_Hayson", ev2, shards=14)
    note_events(ctx, ev2, trivial=trivial_value)
    return finish(ctx,
                  "GEN: every state of MC_Hayson (depth %d) serialised through to_string/to_vec/to_value and deserialised through "
                  "from_str/from_slice/from_value (7 combinations) plus the typed Serialize/Deserialize pair of the payload; REC: %d "
                  "seeded random well-formed values; TLC (Trace_Hayson) requires every combination ok and Same(back, v). distinct = "
                  "distinct input values excluding payload-free scalars" % (depth, n),
                  ["chrono-tz offsets are facts", "serde_json implements JSON syntax correctly (tokenising is trusted, Hayson meaning is not)"])


def c05(ctx):
    depth = 2      # as c04: depth 3 x 7 spellings is out of reach; thorough deepens the recorded values and the tree family
    vecs = hayson_universe(ctx, depth)
    names = ["plain", "rev", "rot+dictKind", "metaAbsent+dot0", "metaEmpty+e0+utcTz", "rev+shift+dictKind+metaAbsent", "rot+E+0+utcTz"]
    reads = []
    for x in vecs:
        seen = set()
        for i, t in enumerate(x["trees"]):
            key = json.dumps(t, sort_keys=True)
            if key in seen:
                continue
            seen.add(key)
            reads.append({"op": "hayson.read", "v": x["v"], "tree": t, "st": names[i]})
    rt = [{"op": "hayson.rt", "v": x["v"]} for x in vecs]
    ev1 = hs_run(ctx, reads + rt, "gen")
    ctx.bads += tlc_trace(ctx, "Trace_Hayson", ev1, shards=14)
    note_events(ctx, ev1, key=lambda e: [e.get("v"), e.get("tree")], trivial=trivial_value)
    n = 3000 if ctx.quick else 60000
    ev2 = hs_rec(ctx, "hayson", n, ["--depth", "3" if ctx.quick else "5"])
    ctx.bads += tlc_trace(ctx, "Trace_Hayson", ev2, shards=14)
    note_events(ctx, ev2, trivial=trivial_value)
    # documents the writers never produce: every object of <= 2 members over the member names / leaves the Hayson visitor
    # inspects (number spellings at the edges of i64 / u64 / f64 among the leaves), read by Hayson.tla and by libhaystack
    vj, _ = tlc_mc(ctx, "MC_Texts", consts={"MaxLen": 2, "Mode": '"tree"', "EmitVectors": "TRUE", "KindFirst": "TRUE" if ctx.quick else "FALSE"},
                   invariants=["ReaderTotal", "Emit"], workers=8, timeout=3000)
    ev3 = hs_run(ctx, vj + hayson_grid_shapes(), "fam")
    ctx.bads += tlc_trace(ctx, "Trace_Total", ev3, shards=14)
    note_events(ctx, ev3, key=lambda e: e.get("tree"))
    return finish(ctx,
                  "spec writes / libhaystack reads: every distinct JSON tree (7 styles: member orders fwd/rev/rotated, _kind:dict "
                  "present/absent, meta absent/empty/with ver, tz on UTC, number spellings) of every MC_Hayson state (depth %d); "
                  "libhaystack writes / spec reads: the JSON libhaystack emits for every state and %d random values must satisfy "
                  "HaysonDenotes(tree, v). distinct = distinct (value, tree) pairs" % (depth, n),
                  ["Hayson.tla transcribes docHaystack/Json; JSON tokenising/printing (harness/src/jtree.rs) is trusted"])


def c06(ctx):
    vecs, out = tlc_mc(ctx, "MC_Time", consts={"EmitVectors": "TRUE", "Full": "FALSE" if ctx.quick else "TRUE"},
                       invariants=["RfcRoundTrip", "RfcNoZRoundTrip", "ZincRoundTrip", "Emit"], workers=8, timeout=3000)
    ev1 = hs_run(ctx, vecs, "gen")
    ctx.bads += tlc_trace(ctx, "Trace_Time", ev1, shards=12)
    note_events(ctx, ev1, key=lambda e: e.get("text"))
    ev2 = hs_rec(ctx, "time", 0, ["--per-zone", "8" if ctx.quick else "0"])
    ctx.bads += tlc_trace(ctx, "Trace_Time", ev2, shards=14)
    note_events(ctx, ev2, key=lambda e: [e.get("tzid"), e.get("unix"), e.get("ns")])
    return finish(ctx,
                  "GEN: MC_Time enumerates RFC 3339 texts for all 105 offsets -12:00..+14:00 (15 min steps) x corner instants x 0..9 "
                  "fraction digits; each is given to parse_from_rfc3339 / FromStr / make_datetime_from_iso and TLC recomputes the "
                  "instant from the text. REC: every zone of the bundled tz database with an unambiguous city name x (%s) of its "
                  "1980-2060 offset transitions x {t-1s, t, t+1s, t-30min, t+30min} + 2 mid-period instants, through the instant+zone "
                  "constructor, parse_from_rfc3339_with_timezone (text at a random offset), Zinc and Hayson round trips. distinct = "
                  "distinct texts / (zone, instant) pairs" % ("8 per zone" if ctx.quick else "all"),
                  ["chrono-tz's offset_from_utc_datetime is the tz database oracle (the property is about libhaystack keeping instant "
                   "and zone, not about tzdata)", "zone unambiguity decided by exact comparison of offset functions 1980-2060"],
                  exhaustive=not ctx.quick)


BOMBS = [("zinc", "[", "", "]"), ("zinc", "{a:", "1", "}"), ("zinc", "[", "", ""), ("zinc", "{a:", "", ""),
         ("zinc", "<<\nver:\"3.0\"\na\n", "1", "\n>>"), ("zinc", "<<\nver:\"3.0\"\na\n", "", ""),
         ("zinc", "ver:\"3.0\" m:[", "", ""), ("zinc", "(", "", ")"), ("zinc", "\"", "", ""), ("zinc", "-", "", ""),
         ("json", "[", "", "]"), ("json", "{\"a\":", "1", "}"), ("json", "[", "", ""), ("json", "{\"a\":", "", ""),
         ("json", "{\"_kind\":\"grid\",\"cols\":[],\"rows\":[", "", "]}"),
         ("json", "{\"_kind\":\"dict\",\"a\":", "null", "}")]


def bomb_vectors(fmts, quick):
    ns = [1, 10, 100, 127, 128, 129, 1000, 10000, 100000]
    return [{"op": "dec.bomb", "fmt": f, "open": o, "mid": m, "close": c, "n": n} for (f, o, m, c) in BOMBS if f in fmts for n in ns]


def texts_of_universe(ctx, depth, styles):
    vecs = zinc_universe(ctx, depth)
    out = []
    for x in vecs:
        seen = set()
        for i in styles:
            t = x["texts"][i]
            k = json.dumps(t)
            if k not in seen:
                seen.add(k)
                out.append(t)
    return out


def c03(ctx):
    q = ctx.quick
    # 1. exhaustive short texts / small JSON trees, with the spec's own readers shown total on them
    vt, _ = tlc_mc(ctx, "MC_Texts", consts={"MaxLen": 3 if q else 4, "Mode": '"text"', "EmitVectors": "TRUE", "KindFirst": "TRUE"},
                   invariants=["ReaderTotal", "Emit"], workers=8, timeout=3000)
    vj, _ = tlc_mc(ctx, "MC_Texts", consts={"MaxLen": 2, "Mode": '"tree"', "EmitVectors": "TRUE", "KindFirst": "TRUE" if q else "FALSE"},
                   invariants=["ReaderTotal", "Emit"], workers=8, timeout=3000)
    ve, _ = tlc_mc(ctx, "MC_Texts", consts={"MaxLen": 3 if q else 4, "Mode": '"esc"', "EmitVectors": "TRUE", "KindFirst": "TRUE"},
                   invariants=["ReaderTotal", "Emit"], workers=8, timeout=3000)
    vt = vt + ve + text_family(ctx, "num", not q) + text_family(ctx, "fld", True)
    # 2. prefixes and single edits of the documents the spec writer produces for the small universe
    muts = zinc_mutant_vectors(ctx, q, [0, 3, 9])
    jm = [{"op": "dec.json.tree.mutants", "tree": x["trees"][0], "full": not q} for x in hayson_universe(ctx, 0)]
    if not q:
        jm += [{"op": "dec.json.tree.mutants", "tree": x["trees"][0], "full": False} for x in hayson_universe(ctx, 1)[::3]]
    # 3. nesting bombs (child process), 4. reader schedules and I/O faults
    bombs = bomb_vectors({"zinc", "json"}, q)
    sched_docs = [t for t in texts_of_universe(ctx, 1, [0]) if len(t) <= 24]
    if q:
        sched_docs = sched_docs[::6]
    sched = [{"op": "dec.sched.all", "text": t} for t in sched_docs]
    sched = sched + stream_vectors(ctx, 4 if q else 5, 1)
    ev1 = hs_run(ctx, vt + vj + muts + jm + bombs + sched + long_token_vectors(q) + hayson_field_docs() + hayson_foreign_docs(), "gen")
    ctx.bads += tlc_trace(ctx, "Trace_Total", ev1, shards=14)
    note_events(ctx, ev1, key=lambda e: [e.get("text"), e.get("schedule"), e.get("fail_at"), e.get("open"), e.get("n")])
    # 5. byte-level fuzz and corpus splices
    n = 30000 if q else 400000
    ev2 = hs_rec(ctx, "fuzz", n)
    ctx.bads += tlc_trace(ctx, "Trace_Total", ev2, shards=14)
    note_events(ctx, ev2, key=lambda e: e.get("text"))
    return finish(ctx,
                  "GEN: all texts of length <= %d over a 32-symbol class alphabet (TLC shows the TLA+ reader total on them and the harness "
                  "runs from_str, Parser::parse_value over a reader and the lazy row iterator); all JSON objects of <= 2 members over the "
                  "names/values the Hayson visitor inspects; every prefix and single edit (delete/duplicate/replace/insert by class "
                  "representatives; thorough: full representative set on depth-0 documents, sampled set on every sixth depth-1 document) of the documents the spec writers produce for the depth-%d universe; nesting bombs n in 1..10^5 "
                  "in a child process; the long-token family (every grammar slot of free length filled with k ASCII + n multi-byte characters or raw 0xFF bytes, n up to %s); reader schedules (all chunkings of texts <= 10 bytes, 1-byte reads, Interrupted before every "
                  "byte, I/O error at every offset). REC: %d random byte strings / corpus splices. Outcome monitors: catch_unwind, "
                  "worker process with time limit (retried once alone), child exit status. distinct = distinct inputs"
                  % (3 if q else 4, 0 if q else 1, "33" if q else "257", n),
                  ["a hang is detected as no reply within 3 s (15 s on the retry) for inputs <= 1 KiB", "the watchdog, catch_unwind and "
                   "exit status are the observation; admissibility (ok|err) is judged by Trace_Total.tla"])


def c10(ctx):
    q = ctx.quick
    vecs, _ = tlc_mc(ctx, "MC_Constructible", consts={"MaxDepth": 1 if q else 2}, invariants=["Emit"], workers=8, timeout=3000)
    nests = [{"op": "enc.nest", "form": f, "n": n} for f in ("list", "dict", "grid", "gridmeta", "mixed") for n in (1, 2, 8, 32, 63, 64)]
    longs = [{"op": "enc.long", "holder": h, "ch": c, "pad": p, "n": n}
             for h in ("str", "uri", "refdis", "ref", "symbol", "xstr", "list", "dict", "grid") for c in ("\u00e9", "\u20ac", "\U0001F600")
             for p in range(4) for n in ((1, 7, 15, 16, 31, 32, 33, 63, 64, 65, 127, 129, 255, 257) if q else tuple(range(1, 70)) + (127, 128, 129, 255, 256, 257, 1023, 1025, 4097, 65537))]
    import vlib
    allz = json.loads(vlib.sh([vlib.HS, "zones"], check=True)[1])
    zones = [{"op": "enc.zone", "zone": z} for z in (allz[::4] + [z for z in allz if "/" not in z] if q else allz)]
    ev1 = hs_run(ctx, vecs + nests + longs + zones + [{"op": "enc.defaultunit"}], "gen")
    ctx.bads += tlc_trace(ctx, "Trace_Enc", ev1, shards=12)
    note_events(ctx, ev1, key=lambda e: [e.get("v"), e.get("form"), e.get("n")])
    # decoder images: everything a decoder accepts from foreign input is offered to both encoders and Display
    n = 30000 if q else 300000
    ev2 = hs_rec(ctx, "fuzz", n)
    ctx.bads += tlc_trace(ctx, "Trace_Total", ev2, shards=14)
    note_events(ctx, ev2, key=lambda e: e.get("text"), trivial=lambda e: e.get("reenc", {}).get("display") == "skipped")
    ev3 = hs_run(ctx, zinc_mutant_vectors(ctx, q, [0, 9]) + hayson_foreign_docs() + hayson_field_docs(), "mut")
    ctx.bads += tlc_trace(ctx, "Trace_Total", ev3, shards=14)
    note_events(ctx, ev3, key=lambda e: e.get("text"), trivial=lambda e: e.get("reenc", {}).get("display") == "skipped")
    return finish(ctx,
                  "GEN: MC_Constructible enumerates constructible values (string classes in every String field: empty, upper, digit-first, "
                  "non-ASCII-first, NUL, quote, newline, backslash; unit-bearing NaN/INF; out-of-range dates; grids without columns, "
                  "with foreign row keys, duplicate columns, empty-but-present meta) nested to depth %d by the wrap actions, plus values "
                  "nested 64 deep; each is encoded through to_zinc_string, the ToZinc trait (Value and typed), serde_json "
                  "to_string/to_vec/to_value (Value and typed), Display and Dict::dis under catch_unwind. Decoder images: every value "
                  "accepted from %d fuzz inputs and from all single-edit mutants of spec-written documents is offered to both encoders "
                  "and Display. distinct = distinct values / accepted inputs" % (1 if q else 2, n),
                  ["panic observation = catch_unwind in the harness; the specification supplies the universe and judges outcome in {ok, err}"])


def stream_vectors(ctx, maxlen, maxintr):
    """MC of the pull side of the decoder (ZincStream.tla: reader / scanner / lazy row loop) for every grid body of
    <= maxlen bytes over { 1 2 , NL x }, every Interrupted schedule and an I/O failure at every offset; one replay vector per
    terminal state"""
    vecs, _ = tlc_mc(ctx, "MC_ZincStream", consts={"MaxLen": maxlen, "MaxIntr": maxintr, "Datas": "<- MCDatas"},
                     invariants=["Faithful", "NoReadAhead", "LazyBound", "RowsCorrect", "Emit"], properties=["Termination"],
                     workers=8, timeout=3000, deadlock=False, cover=("ZincStream", []))
    return vecs


def c11(ctx):
    q = ctx.quick
    stream = stream_vectors(ctx, 4 if q else 6, 1 if q else 2)
    # stability + reader/buffer equality + iterator rows, on every spelling of the small universe
    sp = texts_of_universe(ctx, 1 if q else 2, list(range(10)))
    v1 = [{"op": "dec.zinc", "text": t, "src": "spelling"} for t in sp]
    hv = hayson_universe(ctx, 1 if q else 2)
    seen = set()
    v2 = []
    for x in hv:
        for t in x["trees"]:
            k = json.dumps(t, sort_keys=True)
            if k not in seen:
                seen.add(k)
                v2.append({"op": "dec.json.tree", "tree": t, "src": "spelling"})
    if q:
        v2 = v2[::2]
    files = [{"op": "stab.file", "path": "/repo/benches/zinc/points.zinc", "fmt": "zinc"},
             {"op": "stab.file", "path": "/repo/tests/defs/defs.zinc", "fmt": "zinc"},
             {"op": "stab.file", "path": "/repo/benches/json/points.json", "fmt": "json"}]
    sched_docs = [t for t in texts_of_universe(ctx, 1, [0, 3]) if len(t) <= 24]
    if q:
        sched_docs = sched_docs[::4]
    sched = [{"op": "dec.sched.all", "text": t} for t in sched_docs]
    big = [{"op": "dec.sched.big", "rows": 300, "seed": ctx.seed + i} for i in range(1 if q else 6)]
    muts = zinc_mutant_vectors(ctx, q, [0, 9])
    ev1 = hs_run(ctx, v1 + v2 + files + sched + big + muts + stream + hayson_grid_shapes() + hayson_foreign_docs(), "gen")
    ctx.bads += tlc_trace(ctx, "Trace_Total", ev1, shards=14, per_shard_min=50)
    note_events(ctx, ev1, key=lambda e: [e.get("text"), e.get("tree"), e.get("schedule"), e.get("fail_at"), e.get("path"), e.get("row")])
    n = 20000 if q else 200000
    ev2 = hs_rec(ctx, "fuzz", n)
    ctx.bads += tlc_trace(ctx, "Trace_Total", ev2, shards=14)
    note_events(ctx, ev2, key=lambda e: e.get("text"), trivial=lambda e: e.get("reenc", {}).get("display") == "skipped")
    return finish(ctx,
                  "stability: every spelling (10 Zinc styles / 7 Hayson styles) of the depth-%d universe, the three corpus files shipped "
                  "with the repository (row by row), accepted single-edit mutants and accepted fuzz inputs are decoded, re-encoded in the "
                  "same format and decoded again; TLC requires Same(second, first). stream = buffer: the same texts through "
                  "Parser::parse_value over a reader and the lazy row iterator must give the from_str value / the grid's rows; reader "
                  "schedules: all chunkings of texts <= 10 bytes, 1-byte reads, Interrupted before every byte, oversized chunks. "
                  "laziness: 300-row grids (>12 KB) read under 4 schedules, bytes consumed at each yielded row <= end of the first token "
                  "after that row + 16 (positions computed by the TLA+ reader). MC: ZincStream.tla (reader / scanner / lazy row loop as a "
                  "state machine) checked for every grid body of <= %d bytes over {1 2 , NL x}, <= %d consecutive Interrupted answers and an "
                  "I/O error at every offset (Faithful, NoReadAhead, LazyBound, RowsCorrect, Termination under weak fairness); each "
                  "terminal state replayed through parse_grid_iterator under 4 reader schedules: rows = the machine's rows, bytes consumed "
                  "at each hand-out <= the machine's + 4. distinct = distinct inputs" % (1 if q else 2, 4 if q else 6, 1 if q else 2),
                  ["the 16-byte slack covers the lexer's bounded look-ahead for number/date disambiguation; a buffering reader or eager "
                   "row collection exceeds it by kilobytes on the 300-row grids"])


def filter_vectors(ctx, mode, big=False):
    vecs, _ = tlc_mc(ctx, "MC_Filter", consts={"Mode": '"%s"' % mode, "Big": "TRUE" if big else "FALSE"}, invariants=["ParseOk", "EvalTotal", "Emit"],
                     workers=8, timeout=3000)
    return vecs


def strip_numerals(j):
    if isinstance(j, dict):
        return {k: strip_numerals(v) for k, v in j.items() if k != "numeral"}
    if isinstance(j, list):
        return [strip_numerals(x) for x in j]
    return j


def c07(ctx):
    q = ctx.quick
    ve = strip_numerals(filter_vectors(ctx, "eval"))
    vg = strip_numerals(filter_vectors(ctx, "grid"))
    vw = strip_numerals(filter_vectors(ctx, "weq", big=not q))
    ev1 = hs_run(ctx, ve + vg + vw, "gen")
    ctx.bads += tlc_trace(ctx, "Trace_Filter", ev1, shards=12)
    note_events(ctx, ev1, key=lambda e: [e.get("text"), e.get("rec"), e.get("rows"), e.get("db")])
    return finish(ctx,
                  "GEN: MC_Filter enumerates (filter, record) pairs - every has / missing / comparison term (5 paths of 1-4 segments x 6 "
                  "operators x 11 literals of all literal kinds) against records whose resolved value is absent, Null, Marker, of the same or "
                  "another kind, a list (flat, empty, nested), a dict; every and/or/parens shape of <= 3 terms over all presence patterns; "
                  "(filter, 3-row grid) pairs for filter / filter_all; `*==` over ref databases with chains, 1/2/3-cycles and dangling refs "
                  "with a caller-supplied resolver. The filter is obtained by parsing the specification's canonical print; TLC computes the "
                  "denotational truth value (three-valued: mixed-unit ordering is left open) and compares. distinct = distinct pairs",
                  ["Dict is the default resolver; the caller-supplied resolver of the harness follows Refs (its own code) - the library part "
                   "under test there is the *== loop and the EvalContext plumbing", "^symbol and relationship terms are evaluated under C13"],
                  exhaustive=True)


def c08(ctx):
    q = ctx.quick
    vp = strip_numerals(filter_vectors(ctx, "parse"))
    muts = [{"op": "filter.mutants", "text": x["texts"][0], "full": not q} for x in vp]
    if q:
        muts = muts[::4]
    ev1 = hs_run(ctx, vp + muts, "gen")
    ctx.bads += tlc_trace(ctx, "Trace_Filter", ev1, shards=14)
    note_events(ctx, ev1, key=lambda e: e.get("text"), trivial=lambda e: e.get("outcome") != "ok")
    n = 20000 if q else 300000
    ev2 = hs_rec(ctx, "filterfuzz", n)
    ctx.bads += tlc_trace(ctx, "Trace_Filter", ev2, shards=14)
    note_events(ctx, ev2, key=lambda e: e.get("text"), trivial=lambda e: e.get("outcome") != "ok")
    return finish(ctx,
                  "GEN: MC_Filter (parse mode) checks FParse(FPrint(f)) = f for 615 filter trees (every term kind incl. ^symbol, "
                  "relationship and *== terms, literals of every kind incl. strings with each escape, numbers with units/exponent, "
                  "dates, times, timestamps with zones, refs with display names, uris, symbols, booleans; paths of 1-4 segments followed by "
                  "and/or; precedence and grouping shapes) x 6 spacings (1-2 spaces, NL, TAB, CRLF, tight operators); libhaystack must parse "
                  "each spelling to that tree, its Display text must be a sentence the TLA+ parser maps to the same tree, and its own "
                  "re-parse must be equal; single-edit mutants of the canonical spellings that still parse get the same checks. REC: %d token soups; every accepted text gets the same print/re-parse checks and, where the "
                  "TLA+ parser accepts, tree equality. distinct = distinct texts (non-trivial = accepted)" % n,
                  ["Filter.tla transcribes docHaystack/Filters plus libhaystack's documented extensions; no spaces around '->' are ever written"])


def c09(ctx):
    q = ctx.quick
    vp = strip_numerals(filter_vectors(ctx, "parse"))
    muts = []
    for x in vp:
        muts.append({"op": "filter.mutants", "text": x["texts"][0], "full": not q})
        if not q:
            muts.append({"op": "filter.mutants", "text": x["texts"][1], "full": True})
    if q:
        muts = muts[::3]
    bombs = [{"op": "dec.bomb", "fmt": "filter", "open": o, "mid": m, "close": c, "n": n}
             for (o, m, c) in [("(", "a", ")"), ("(", "", ""), ("(", "a", ""), ("a and (", "b", ")"), ("not ", "a", ""), ("a->", "b", ""),
                               ("a or ", "b", ""), ("a and ", "b", ""), ("( ", "a", " )")]
             for n in (1, 10, 100, 127, 128, 129, 1000, 10000, 100000)]
    vw = strip_numerals(filter_vectors(ctx, "weq", big=not q))
    # string / uri literals spelled with every escape of the MC_Texts escape family (the filter lexer shares the Zinc
    # scalar readers)
    ve, _ = tlc_mc(ctx, "MC_Texts", consts={"MaxLen": 3, "Mode": '"esc"', "EmitVectors": "TRUE", "KindFirst": "TRUE"},
                   invariants=["ReaderTotal", "Emit"], workers=8, timeout=3000)
    lit = [{"op": "filter.text", "text": [97, 32, 61, 61, 32] + x["text"], "src": "esc"} for x in (ve[::3] if q else ve)]
    # date / time / timestamp / coord literals with one field at the edge of its range or beyond (the field family of C03 / C04,
    # without its list / dict / grid frames), after `==` and `<`
    fld = [x for x in text_family(ctx, "fld", True) if x["text"][:1] not in ([91], [123], [118])]
    lit += [{"op": "filter.text", "text": [ord(c) for c in pre] + x["text"] + [ord(c) for c in post], "src": "fld"}
            for x in fld for pre, post in (("a == ", ""), ("b < ", " and c"))]
    # relationship terms over the same family of resolver graphs (tag equipRef instead of a; records with and without `id`)
    def _cps(t):
        return [ord(ch) for ch in t]
    def _rel(x, with_ids):
        ren = lambda tags: [[_cps("equipRef") if t[0] == [97] else t[0], t[1]] for t in tags if with_ids or t[0] != _cps("id")]
        keyed = []
        for r in x["db"]:
            idv = [t[1] for t in r if t[0] == _cps("id")]
            if idv:
                keyed.append([idv[0]["id"], sorted(ren(r) + [[_cps("equip"), {"k": "marker"}]], key=lambda t: t[0])])
        rec = ren(x["rec"]) + [[_cps("point"), {"k": "marker"}]]
        if not any(t[0] == _cps("id") for t in rec):
            rec.append([_cps("id"), {"k": "ref", "id": _cps("p"), "dis": []}])
        rec = sorted(rec, key=lambda t: t[0])
        return {"op": "filter.rel", "text": _cps("containedBy? @r1"), "rec": rec, "db": keyed}
    rel = [_rel(x, w) for x in (vw[::2] if q else vw) for w in (True, False)]
    # chains of refs without a cycle, far longer than any database above (a walk by recursion dies of stack exhaustion)
    rel += [{"op": "filter.chain", "kind": k, "n": n, "hit": h} for k in ("weq", "rel") for h in (True, False)
            for n in ((1, 2, 1000, 100000) if q else (1, 2, 3, 1000, 30000, 100000, 1000000))]
    ev1 = hs_run(ctx, vp + muts + bombs + vw + lit + rel, "gen")
    # bombs are dec.bomb events (Trace_Total), the rest filter events (Trace_Filter): split
    evs = read_ndjson(ev1)
    fa = ctx.fresh("filter") + ".ndjson"
    fb = ctx.fresh("bomb") + ".ndjson"
    write_ndjson(fa, [e for e in evs if e["op"].startswith("filter")])
    write_ndjson(fb, [e for e in evs if e["op"].startswith("dec.")])
    ctx.bads += tlc_trace(ctx, "Trace_Filter", fa, shards=14)
    ctx.bads += tlc_trace(ctx, "Trace_Total", fb, shards=1)
    note_events(ctx, ev1, key=lambda e: [e.get("text"), e.get("open"), e.get("n"), e.get("db"), e.get("rec")])
    n = 30000 if q else 400000
    ev2 = hs_rec(ctx, "filterfuzz", n)
    ctx.bads += tlc_trace(ctx, "Trace_Filter", ev2, shards=14)
    note_events(ctx, ev2, key=lambda e: e.get("text"))
    return finish(ctx,
                  "every prefix and single edit (delete/duplicate/replace/insert by 24 class representatives) of the printed filters of the "
                  "C08 universe, operators without operands, unbalanced and nested parentheses / long and-or-not chains n in 1..10^5 "
                  "(child process: a stack overflow is an exit status), %d random byte strings and token soups - parsed in an isolated "
                  "worker process with a time limit; evaluation of `*==` against resolver databases with 1-, 2- and 3-cycles under a time "
                  "limit. Trace_Filter / Trace_Total admit only ok | err (and a truth value for evaluation). distinct = distinct inputs" % n,
                  ["hang = no reply within 3 s (15 s on the retry alone)"])


def c13(ctx):
    q = ctx.quick
    vecs, _ = tlc_mc(ctx, "MC_Defs", consts={"Small": "TRUE" if q else "FALSE"}, invariants=["GraphLaws", "Emit"], workers=8, timeout=3000)
    ev1 = hs_run(ctx, vecs, "gen")
    ctx.bads += tlc_trace_stateful(ctx, "Trace_Defs", ev1, "defs.load", shards=14)
    note_events(ctx, ev1, key=lambda e: ["gen", e.get("i")], trivial=lambda e: e.get("op") == "defs.load")
    ev2 = hs_rec(ctx, "defs", 2 if q else 25)
    ctx.bads += tlc_trace_stateful(ctx, "Trace_Defs", ev2, "defs.load", shards=14)
    note_events(ctx, ev2, key=lambda e: ["rec", e.get("i")], trivial=lambda e: e.get("op") == "defs.load")
    return finish(ctx,
                  "GEN: MC_Defs enumerates %s defs grids over the names a b c d a-b a-c k:x choice u (per-def menus of `is` lists: diamonds, "
                  "undefined supertypes, conjuncts, a feature key, a choice; non-symbol noise in `is`), checks graph theorems on each, and "
                  "for each grid the harness asks every taxonomy query for every symbol (get/has, direct and transitive super/subtypes, "
                  "inheritance, fits against every symbol, choices, conjunct parts) and reflects 54 records (tags absent / Marker / "
                  "non-marker) incl. Reflection::fits and the ^symbol filter term for every symbol. REC: the real Project Haystack defs "
                  "(tests/defs/defs.zinc): every symbol x every query, fits over all symbol pairs, reflection of corpus records and random "
                  "marker sets; %d random acyclic taxonomies of 30-200 defs. Answers are compared as sets by Trace_Defs (stateful trace: "
                  "defs.load sets the graph). distinct = distinct (grid, query) cases" % ("432" if q else "5184", 2 if q else 25),
                  ["the defs grid is the input: its (def, is) projection is logged by the harness from the decoded Value", "taxonomies are acyclic"])


def ns_mc(ctx, threads, nshards, wp, progs, keep=False, live=True, **kw):
    consts = {"Threads": "{%s}" % ", ".join("t%d" % i for i in range(1, threads + 1)), "Syms": "<- MCSyms", "Graph": "<- MCGraph",
              "NShards": nshards, "WriterPref": "TRUE" if wp else "FALSE", "Programs": "<- " + progs,
              "KeepFirstGuard": "TRUE" if keep else "FALSE"}
    return tlc_mc(ctx, "MC_NsCache", consts=consts, invariants=["AnswerCorrect", "CacheCoherent", "NoPanic", "NoReentry", "GuardsReleased", "EmitHistory"],
                  properties=[] if (keep or not live) else ["Termination"], deadlock=True, workers=12, timeout=3400, **kw)


def corrupt_check(ctx, module, events_path, mutate, what, stateful_reset=None):
    """binding self-test: a corrupted recorded trace must be rejected by the trace specification"""
    evs = read_ndjson(events_path)
    bad = mutate(evs)
    if bad is None:
        return
    pth = ctx.fresh("corrupt") + ".ndjson"
    for n, e in enumerate(bad):
        e["i"] = n + 1
    write_ndjson(pth, bad)
    saved = (ctx.states, ctx.transitions, ctx.traces, ctx.evaluations)
    r = tlc_trace(ctx, module, pth, 1)
    ctx.states, ctx.transitions, ctx.traces, ctx.evaluations = saved
    if not r:
        raise ToolError("binding self-test failed: %s was accepted by %s" % (what, module))
    ctx.notes.append("binding self-test: %s rejected (%s)" % (what, r[0]["reason"][:80]))


def c14(ctx):
    q = ctx.quick
    # all interleavings of the cache protocol on the model (writer- and reader-preferring locks, every shard assignment)
    # vacuity guard on the first run: every action and branch of NsCache.tla is taken, except the panic branch whose
    # unreachability is the invariant NoPanic itself
    ns_mc(ctx, 2, 1, True, "Progs1", cover=("NsCache", [r"panicked' = TRUE", r"UNCHANGED <<ret, held, stack>>", r"^UNCHANGED vars$"]))
    ns_mc(ctx, 2, 1, False, "Progs1")
    ns_mc(ctx, 2, 1, True, "Progs3", keep=True, expect_violation="NoReentry")
    if not q:
        ns_mc(ctx, 2, 2, True, "Progs1")
        ns_mc(ctx, 2, 2, False, "Progs1")
        ns_mc(ctx, 2, 1, True, "Progs2")
        ns_mc(ctx, 3, 1, True, "Progs3")
        # (3 threads x 2 shards did not finish within an hour on the 6-symbol graph: three threads are covered with one
        #  shard exhaustively and with two shards by the simulated replays below)
    # sequential histories: every order of <= 3 queries, enumerated by TLC, replayed on a cold namespace
    vecs, _ = ns_mc(ctx, 1, 1, True, "ProgsSeq")
    ev1 = hs_run(ctx, vecs, "hist")
    ctx.bads += tlc_trace_stateful(ctx, "Trace_NsCache", ev1, "defs.load", shards=12)
    note_events(ctx, ev1, key=lambda e: ["h", e.get("i")], trivial=lambda e: e.get("op") != "ns.qend")
    # interleavings: TLC (simulation mode) walks random behaviours of the protocol for 2 (thorough: also 3) threads, pairs of
    # queries and every shard assignment; each finished behaviour is stepped through the real namespace - shard assignment
    # forced on the real dashmaps, every thread held at the hook's gate and released one cache touch at a time in the
    # model's order, the touch it is about to make compared with the model's (kind, map, key)
    replays = []
    for (threads, progs, num) in ([("MCThreads", "ProgsR", 400)] if q else [("MCThreads", "ProgsR", 6000), ("MCThreads3", "ProgsR1", 3000)]):
        v, _ = tlc_mc(ctx, "MC_NsReplay", spec="HSpec", simulate="num=%d" % num,
                      consts={"Threads": "<- " + threads, "Syms": "<- MCSyms", "Graph": "<- MCGraph", "NShards": 2, "WriterPref": "FALSE",
                              "Programs": "<- " + progs, "KeepFirstGuard": "FALSE", "SeqOf": "<- RankedSeqOf"},
                      invariants=["AnswerCorrect", "CacheCoherent", "NoPanic", "NoReentry", "Emit"], workers=1, timeout=3000)
        seen = set()
        for x in v:
            k = json.dumps(x, sort_keys=True)
            if k not in seen:
                seen.add(k)
                replays.append(x)
    # self-test of the forcing: an insert into the shard another thread holds a guard on must block, into another shard not
    def _S(t, k, m, key):
        return {"t": t, "kind": k, "map": m, "key": key}
    ctl_steps = [_S("t1", "get", "SUP", "a"), _S("t1", "contains", "SUP", "a"), _S("t1", "insert", "SUP", "a"), _S("t1", "get", "SUP", "a"),
                 _S("t2", "get", "SUP", "b"), _S("t2", "contains", "SUP", "b"), _S("t2", "insert", "SUP", "b"), _S("t2", "get", "SUP", "b"),
                 _S("t2", "drop", "SUP", ""), _S("t1", "drop", "SUP", "")]
    ctl = [{"op": "ns.replay", "progs": {"t1": [["sup", "a"]], "t2": [["sup", "b"]]}, "shard": dict(a=1, b=sb, c=1, d=1, u=1), "steps": ctl_steps,
            "results": {}} for sb in (1, 2)]
    groups = []
    for e in read_ndjson(hs_run(ctx, ctl, "ctl")):
        if e.get("op") == "defs.load":
            groups.append([])
        groups[-1].append(e)
    outc = [next((e["outcome"] for e in g if e.get("op") == "ns.replay"), "none") for g in groups]
    if len(outc) != 2 or outc[0] == "ok":
        # the insert did not block although the model's shard assignment says it must: the forcing does not work
        raise ToolError("forced shard assignment self-test failed (an insert into a shard held by another thread's guard went through): %s" % outc)
    # same shard: "stuck" is the expected outcome and is not judged; anything else (the implementation makes other touches than
    # the model) is judged by the trace specification like every other replay, as is the whole different-shard control
    keep = (groups[0] if outc[0] != "stuck" else []) + groups[1]
    fctl = ctx.fresh("ctl") + ".ndjson"
    for n_, e in enumerate(keep):
        e["i"] = n_ + 1
    write_ndjson(fctl, keep)
    ctx.bads += tlc_trace_stateful(ctx, "Trace_NsCache", fctl, "defs.load", shards=1)
    ctx.notes.append("forcing self-test: insert into a shard held by another thread's guard -> %s; into another shard -> %s" % tuple(outc))
    ev3 = hs_run(ctx, replays, "replay")
    ctx.bads += tlc_trace_stateful(ctx, "Trace_NsCache", ev3, "defs.load", shards=14)
    note_events(ctx, ev3, key=lambda e: ["i", e.get("i")], trivial=lambda e: e.get("op") != "ns.replay")
    # real threads on cold namespaces, observed through the hook
    rounds = 60 if q else 600   # ~6 000 hook events per round; 3 000 rounds exhausted the memory of the box
    ev2 = hs_rec(ctx, "ns", rounds)
    ctx.bads += tlc_trace_stateful(ctx, "Trace_NsCache", ev2, "defs.load", shards=14)
    note_events(ctx, ev2, key=lambda e: ["t", e.get("i")], trivial=lambda e: e.get("op") != "ns.qend")

    def drop_a_drop(evs):
        for n, e in enumerate(evs):
            if e.get("op") == "ns.drop":
                return evs[:n] + evs[n + 1:]
        return None

    def partial_insert(evs):
        for e in evs:
            if e.get("op") == "ns.insert-begin" and len(e.get("value", [])) >= 2:
                e["value"] = e["value"][:-1]
                return evs
        return None
    corrupt_check(ctx, "Trace_NsCache", ev1, drop_a_drop, "a trace with one guard-drop event removed")
    corrupt_check(ctx, "Trace_NsCache", ev1, partial_insert, "a trace whose inserted vector lost one element")
    return finish(ctx,
                  "MC: NsCache.tla (one action per cache touch of supertypes_of / all_supertypes_of / inheritance / fits, read guards, "
                  "blocking insert, writer- and reader-preferring shard locks, every shard assignment) checked exhaustively for 2%s threads "
                  "x every pair of queries on a diamond graph with an undefined supertype: AnswerCorrect, CacheCoherent, NoReentry, NoPanic, "
                  "GuardsReleased, deadlock freedom, Termination; a negative control (guard kept across the loop) must violate NoReentry. "
                  "GEN: all 258 sequential histories of <= 3 queries replayed on cold namespaces; interleavings from TLC's simulation of "
                  "MC_NsReplay (2%s threads, programs of 1-2 queries, every shard assignment) stepped through the real namespace one "
                  "cache touch at a time under a forced shard assignment, each touch compared with the model's. REC: %d rounds of 2/4/8/16 real threads "
                  "released by a barrier on a cold namespace (synthetic diamond graph; every 5th round the real defs), random "
                  "supertypes/inheritance/fits/reflect/relationship queries; the verif hook logs every cache touch and guard drop; "
                  "Trace_NsCache re-checks NoReentry per thread in program order, CacheCoherent on every served/inserted value, "
                  "GuardsReleased, answers = graph = same query alone on a cold namespace, no panic, no unfinished round (20 s watchdog). "
                  "distinct = query executions" % ("" if q else "-3", "" if q else "-3", rounds),
                  ["real schedules cannot be forced: all interleavings are explored on the model, real runs are validated per thread "
                   "against the protocol invariants", "dashmap's shard locks are modelled as reader/writer locks under both preference disciplines"])


ASAN_HS = os.path.join(os.path.dirname(os.path.dirname(os.path.abspath(__file__))), "harness", "target-asan", "x86_64-unknown-linux-gnu", "release", "hs")


def build_asan():
    import vlib, fcntl
    with open(os.path.join(vlib.V, "out", ".build-asan.lock"), "w") as lk:
        fcntl.flock(lk, fcntl.LOCK_EX)
        env = {"RUSTFLAGS": "-Zsanitizer=address --cfg libhaystack_verif --check-cfg cfg(libhaystack_verif) --cfg hs_asan --check-cfg cfg(hs_asan)",
               "CARGO_NET_OFFLINE": "true"}
        rc, out = vlib.sh(["cargo", "+nightly", "build", "--release", "--offline", "--target", "x86_64-unknown-linux-gnu", "--target-dir", "target-asan"],
                          cwd=vlib.HARNESS, env=env, check=False, timeout=3000)
        if rc != 0:
            raise ToolError("ASan harness build failed:\n" + out[-4000:])


def capi_coverage_guard(ctx):
    """every extern "C" function of src/c_api must be modelled in CApi.tla (a new function fails the check as unmodelled)"""
    import re, glob
    names = set()
    for f in glob.glob("/repo/src/c_api/*.rs"):
        names |= set(re.findall(r'extern "C" fn (\w+)', open(f, newline="").read()))
    spec = open(os.path.join(os.path.dirname(os.path.dirname(os.path.abspath(__file__))), "spec", "CApi.tla")).read()
    missing = sorted(n for n in names if n not in spec)
    if missing:
        raise ToolError("C API functions not modelled in CApi.tla: %s" % missing)
    ctx.notes.append("coverage guard: %d extern \"C\" functions in src/c_api, all named in CApi.tla" % len(names))
    return len(names)


def _S(t):
    return {"some": True, "s": [ord(ch) for ch in t]}


def capi_scripts(q):
    """Scripted C API histories (GEN, complementing the MC_CApi enumeration and the random driver):
    (a) the datetime constructors / getters over zones x dates x times chosen so that the UTC and the local calendar
        date differ in both directions, with both values of the utc flag;
    (b) every function that writes through a caller-owned result handle, called twice in a row with the result handle
        initially holding each kind of value (empty, heap text, list, dict, grid): the previous content must be
        released (C18) and replaced (C17);
    (c) in-place overwrites of list / dict entries that own heap data."""
    P = "V" + "".join(f"{ch}" for ch in "payload-long-enough-to-live-on-the-heap-0123456789")
    hist = []
    zones = ["New_York", "Kolkata", "Sydney", "Kiritimati", "London", "UTC", "Honolulu", "Argentina/Buenos_Aires"]
    dates = [(2021, 1, 1), (2021, 12, 31), (2020, 2, 29), (2021, 3, 14), (2021, 11, 7)]
    times = [(0, 0, 0, 0), (0, 30, 0, 1), (4, 59, 59, 999), (12, 0, 0, 0), (19, 0, 0, 0), (23, 30, 0, 0), (23, 59, 59, 999)]
    if q:
        zones, dates = zones[:5], dates[:3]
    for z in zones + [None]:
        for (y, mo, d) in dates:
            calls = [{"fn": "haystack_value_make_date", "n1": y, "n2": mo, "n3": d, "newh": 1}]
            h = 2
            for (hh, mi, ss, ms) in times:
                t, dt, r = h, h + 1, h + 2
                h += 3
                calls.append({"fn": "haystack_value_make_time_millis", "n1": hh, "n2": mi, "n3": ss, "n4": ms, "newh": t})
                if z is None:
                    calls.append({"fn": "haystack_value_make_utc_datetime", "h": 1, "h2": t, "newh": dt})
                else:
                    calls.append({"fn": "haystack_value_make_tz_datetime", "h": 1, "h2": t, "s": _S(z), "newh": dt})
                calls.append({"fn": "haystack_value_init", "newh": r})
                for utc in (True, False):
                    calls.append({"fn": "haystack_value_get_datetime_date", "h": dt, "b": utc, "h2": r})
                    calls.append({"fn": "haystack_value_get_datetime_time", "h": dt, "b": utc, "h2": r})
                calls.append({"fn": "haystack_value_get_datetime_timezone", "h": dt})
                calls.append({"fn": "haystack_value_to_zinc_string", "h": dt})
            hist.append({"op": "capi.history", "calls": calls})
    # (b) result handles
    base = [{"fn": "haystack_value_make_str", "s": _S(P), "newh": 1},
            {"fn": "haystack_value_make_dict", "newh": 2},
            {"fn": "haystack_value_insert_dict_entry", "h": 2, "s": _S("a"), "h2": 1},
            {"fn": "haystack_value_insert_dict_entry", "h": 2, "s": _S("dis"), "h2": 1},
            {"fn": "haystack_value_make_dict", "newh": 8},
            {"fn": "haystack_value_insert_dict_entry", "h": 8, "s": _S("b"), "h2": 1},
            {"fn": "haystack_value_make_list", "newh": 3},
            {"fn": "haystack_value_push_list_entry", "h": 3, "h2": 2},
            {"fn": "haystack_value_push_list_entry", "h": 3, "h2": 8},
            {"fn": "haystack_value_make_grid_from_rows", "h": 3, "newh": 4},
            {"fn": "haystack_value_make_date", "n1": 2021, "n2": 8, "n3": 13, "newh": 5},
            {"fn": "haystack_value_make_time", "n1": 2, "n2": 30, "n3": 0, "newh": 6},
            {"fn": "haystack_value_make_tz_datetime", "h": 5, "h2": 6, "s": _S("New_York"), "newh": 7},
            {"fn": "haystack_filter_parse", "s": _S("a"), "newf": 1},        # first row only
            {"fn": "haystack_filter_parse", "s": _S("b"), "newf": 2},        # second row only
            {"fn": "haystack_filter_parse", "s": _S("zz"), "newf": 3},       # no row
            {"fn": "haystack_filter_parse", "s": _S("a or b"), "newf": 4},   # every row
            {"fn": "haystack_filter_parse", "s": _S("not a"), "newf": 5},    # holds on the second row and on a record without tags
            {"fn": "haystack_value_make_dict", "newh": 10}]                  # a record without tags
    holders = {"empty": [{"fn": "haystack_value_init", "newh": 9}],
               "str": [{"fn": "haystack_value_make_str", "s": _S(P + "-held"), "newh": 9}],
               "list": [{"fn": "haystack_value_make_list", "newh": 9}, {"fn": "haystack_value_push_list_entry", "h": 9, "h2": 1}],
               "dict": [{"fn": "haystack_value_make_dict", "newh": 9}, {"fn": "haystack_value_insert_dict_entry", "h": 9, "s": _S("k"), "h2": 1}],
               "grid": [{"fn": "haystack_value_make_grid_from_rows", "h": 3, "newh": 9}]}
    writers = [[{"fn": "haystack_value_get_grid_row_at", "h": 4, "idx": 0, "h2": 9}, {"fn": "haystack_value_get_grid_row_at", "h": 4, "idx": 1, "h2": 9}],
               [{"fn": "haystack_value_get_dict_keys", "h": 2, "h2": 9}] * 2,
               [{"fn": "haystack_value_get_datetime_date", "h": 7, "b": True, "h2": 9}, {"fn": "haystack_value_get_datetime_time", "h": 7, "b": False, "h2": 9}],
               # a match, no match, another match, every row - into the same result handle (a stale result must not survive)
               [{"fn": "haystack_filter_first_match_in_grid", "fid": f, "h": 4, "h2": 9} for f in (1, 3, 2, 4, 3)],
               [{"fn": "haystack_filter_match_all_grid", "fid": f, "h": 4, "h2": 9} for f in (1, 3, 2, 4, 3)],
               [{"fn": "haystack_filter_match_dict", "fid": f, "h": d} for f in (1, 2, 3, 4, 5) for d in (2, 8, 10)],
               [{"fn": "haystack_filter_first_match_in_grid", "fid": 5, "h": 4, "h2": 9}, {"fn": "haystack_filter_match_all_grid", "fid": 5, "h": 4, "h2": 9}]]
    for hk, mk in holders.items():
        for w in writers:
            for reps in (1, 4):
                hist.append({"op": "capi.history", "calls": base + mk + [dict(c) for c in w] * reps + [{"fn": "haystack_value_to_zinc_string", "h": 9}]})
    # (c) overwriting entries that own heap data
    hist.append({"op": "capi.history", "calls": base + [
        {"fn": "haystack_value_set_list_entry_at", "h": 3, "idx": 0, "h2": 1}, {"fn": "haystack_value_set_list_entry_at", "h": 3, "idx": 0, "h2": 4},
        {"fn": "haystack_value_set_list_entry_at", "h": 3, "idx": 1, "h2": 3}, {"fn": "haystack_value_remove_list_entry_at", "h": 3, "idx": 0},
        {"fn": "haystack_value_insert_dict_entry", "h": 2, "s": _S("a"), "h2": 4}, {"fn": "haystack_value_insert_dict_entry", "h": 2, "s": _S("a"), "h2": 2},
        {"fn": "haystack_value_remove_dict_entry", "h": 2, "s": _S("a")}, {"fn": "haystack_value_remove_dict_entry", "h": 2, "s": _S("a")},
        {"fn": "haystack_value_get_dict_entry", "h": 2, "s": _S("dis")}, {"fn": "haystack_value_get_list_entry_at", "h": 3, "idx": 0},
        {"fn": "haystack_value_to_json_string", "h": 3}, {"fn": "haystack_value_to_zinc_string", "h": 2}]})
    # (e) aliasing: the handle a function reads is also the result handle it writes (nothing in the protocol forbids it): the
    #     result must be computed from the old content before that is released
    alias = [[{"fn": "haystack_value_get_grid_row_at", "h": 4, "idx": 1, "h2": 4}],
             [{"fn": "haystack_value_get_dict_keys", "h": 2, "h2": 2}],
             [{"fn": "haystack_value_get_datetime_date", "h": 7, "b": False, "h2": 7}],
             [{"fn": "haystack_value_get_datetime_time", "h": 7, "b": True, "h2": 7}],
             [{"fn": "haystack_filter_first_match_in_grid", "fid": 2, "h": 4, "h2": 4}],
             [{"fn": "haystack_filter_match_all_grid", "fid": 4, "h": 4, "h2": 4}],
             [{"fn": "haystack_filter_match_all_grid", "fid": 2, "h": 4, "h2": 4}],
             [{"fn": "haystack_filter_match_all_grid", "fid": 3, "h": 4, "h2": 4}],
             [{"fn": "haystack_value_push_list_entry", "h": 3, "h2": 3}],
             [{"fn": "haystack_value_set_list_entry_at", "h": 3, "idx": 0, "h2": 3}],
             [{"fn": "haystack_value_insert_dict_entry", "h": 2, "s": _S("self"), "h2": 2}],
             [{"fn": "haystack_value_insert_dict_entry", "h": 2, "s": _S("a"), "h2": 2}]]
    for a in alias:
        tgt = a[0].get("h2", a[0]["h"])
        hist.append({"op": "capi.history", "calls": base + [dict(c) for c in a] +
                     [{"fn": "haystack_value_to_zinc_string", "h": tgt}, {"fn": "haystack_value_to_json_string", "h": a[0]["h"]}]})
    # (f) values only Hayson can express, decoded through the C API and handed to both string conversions and the getters
    for d in hayson_foreign_values():
        hist.append({"op": "capi.history", "calls": [
            {"fn": "haystack_value_from_json_string", "s": {"some": True, "s": []}, "tree": _jt(d), "newh": 1},
            {"fn": "haystack_value_to_zinc_string", "h": 1}, {"fn": "haystack_value_to_json_string", "h": 1},
            {"fn": "haystack_value_make_list", "newh": 2}, {"fn": "haystack_value_push_list_entry", "h": 2, "h2": 1},
            {"fn": "haystack_value_to_zinc_string", "h": 2}, {"fn": "haystack_value_to_json_string", "h": 2}]})
    # (d) kind sweep: one value of every kind (Null included) put into a dict and a list, then every entry read back,
    #     the keys listed, both codecs run, entries overwritten by another kind and removed
    B = "0x%016x" % 0x4045000000000000      # 42.0
    mk = [{"fn": "haystack_value_init"}, {"fn": "haystack_value_make_marker"}, {"fn": "haystack_value_make_na"}, {"fn": "haystack_value_make_remove"},
          {"fn": "haystack_value_make_bool", "b": True}, {"fn": "haystack_value_make_number", "f1": B},
          {"fn": "haystack_value_make_number_with_unit", "f1": B, "s": _S("m")}, {"fn": "haystack_value_make_str", "s": _S("\u00e9t\u00e9 \U0001F600")},
          {"fn": "haystack_value_make_str", "s": _S("")}, {"fn": "haystack_value_make_ref", "s": _S("a-b")},
          {"fn": "haystack_value_make_ref_with_dis", "s": _S("r"), "s2": _S("Dis \u00e9")}, {"fn": "haystack_value_make_uri", "s": _S("http://x/\u00e9")},
          {"fn": "haystack_value_make_symbol", "s": _S("sym")}, {"fn": "haystack_value_make_xstr", "s": _S("Bin"), "s2": _S("text/plain")},
          {"fn": "haystack_value_make_coord", "f1": B, "f2": "0x%016x" % 0xc053000000000000},
          {"fn": "haystack_value_make_date", "n1": 2021, "n2": 2, "n3": 28}, {"fn": "haystack_value_make_time_millis", "n1": 23, "n2": 59, "n3": 59, "n4": 999},
          {"fn": "haystack_value_make_list"}, {"fn": "haystack_value_make_dict"}]
    calls = []
    for i, c in enumerate(mk):
        calls.append(dict(c, newh=i + 1))
    n = len(mk)
    dt, lst, dct, grid, D, L = n + 1, n + 2, n + 3, n + 4, n + 5, n + 6
    calls += [{"fn": "haystack_value_make_tz_datetime", "h": 16, "h2": 17, "s": _S("Kolkata"), "newh": dt},
              {"fn": "haystack_value_make_list", "newh": lst}, {"fn": "haystack_value_push_list_entry", "h": lst, "h2": 8},
              {"fn": "haystack_value_make_dict", "newh": dct}, {"fn": "haystack_value_insert_dict_entry", "h": dct, "s": _S("a"), "h2": 8},
              {"fn": "haystack_value_push_list_entry", "h": lst, "h2": dct},
              {"fn": "haystack_value_make_list", "newh": n + 7}, {"fn": "haystack_value_push_list_entry", "h": n + 7, "h2": dct},
              {"fn": "haystack_value_make_grid_from_rows", "h": n + 7, "newh": grid},
              {"fn": "haystack_value_make_dict", "newh": D}, {"fn": "haystack_value_make_list", "newh": L}]
    members = list(range(1, n + 1)) + [dt, lst, dct, grid]
    for j, h in enumerate(members):
        calls.append({"fn": "haystack_value_insert_dict_entry", "h": D, "s": _S("k%d" % j), "h2": h})
        calls.append({"fn": "haystack_value_push_list_entry", "h": L, "h2": h})
    calls += [{"fn": "haystack_value_get_dict_len", "h": D}, {"fn": "haystack_value_get_list_len", "h": L},
              {"fn": "haystack_value_init", "newh": n + 8}, {"fn": "haystack_value_get_dict_keys", "h": D, "h2": n + 8}]
    for j, h in enumerate(members):
        calls.append({"fn": "haystack_value_get_dict_entry", "h": D, "s": _S("k%d" % j)})
        calls.append({"fn": "haystack_value_get_list_entry_at", "h": L, "idx": j})
    calls += [{"fn": "haystack_value_get_dict_entry", "h": D, "s": _S("absent")}, {"fn": "haystack_value_get_list_entry_at", "h": L, "idx": len(members)},
              {"fn": "haystack_value_to_zinc_string", "h": D}, {"fn": "haystack_value_to_json_string", "h": D},
              {"fn": "haystack_value_to_zinc_string", "h": L}, {"fn": "haystack_value_to_json_string", "h": L}]
    for j, h in enumerate(members):
        other = members[(j + 5) % len(members)]
        calls.append({"fn": "haystack_value_insert_dict_entry", "h": D, "s": _S("k%d" % j), "h2": other})
        calls.append({"fn": "haystack_value_set_list_entry_at", "h": L, "idx": j, "h2": other})
    for j in range(0, len(members), 2):
        calls.append({"fn": "haystack_value_remove_dict_entry", "h": D, "s": _S("k%d" % j)})
        calls.append({"fn": "haystack_value_remove_list_entry_at", "h": L, "idx": 0})
    calls += [{"fn": "haystack_value_get_dict_len", "h": D}, {"fn": "haystack_value_get_list_len", "h": L},
              {"fn": "haystack_value_to_zinc_string", "h": D}, {"fn": "haystack_value_to_json_string", "h": L}]
    hist.append({"op": "capi.history", "calls": calls})
    return hist


def c17(ctx):
    q = ctx.quick
    nfn = capi_coverage_guard(ctx)
    # cover: every branch of CApi!Apply (success and each failure of each function) is evaluated by the enumeration
    vecs, _ = tlc_mc(ctx, "MC_CApi", consts={"Depth": 2 if q else 3}, invariants=["FailureIsClean", "SuccessKeepsError", "PoolIsValues", "AllModelled", "Emit"],
                     workers=8, timeout=3000, cover=("CApi", []))
    vecs = vecs + capi_scripts(q)
    ev1 = hs_run(ctx, vecs, "gen")
    ctx.bads += tlc_trace_stateful(ctx, "Trace_CApi", ev1, "capi.begin", shards=14)
    note_events(ctx, ev1, key=lambda e: ["g", e.get("i")], trivial=lambda e: e.get("op") != "capi")
    n = 150 if q else 5000
    ev2 = hs_rec(ctx, "capi", n, ["--len", "30" if q else "60"])
    ctx.bads += tlc_trace_stateful(ctx, "Trace_CApi", ev2, "capi.begin", shards=14)
    note_events(ctx, ev2, key=lambda e: ["r", e.get("i")], trivial=lambda e: e.get("op") != "capi")

    def flip_ret(evs):
        for e in evs:
            if e.get("op") == "capi" and e["c"]["fn"] == "haystack_value_get_list_len" and e["ret"].get("r") == "int":
                e["ret"]["n"] += 1
                return evs
        return None
    corrupt_check(ctx, "Trace_CApi", ev2, flip_ret, "a history whose get_list_len result was altered")
    return finish(ctx,
                  "MC: CApi.tla (one abstract operation per extern \"C\" function, %d functions, success and every failure branch) as a state "
                  "machine over a 28-call menu and handle ids 1..3: FailureIsClean, SuccessKeepsError, PoolIsValues on every history of length "
                  "<= %d, each emitted and replayed through the real functions. REC: %d random protocol-respecting histories of %s calls "
                  "(constructors incl. invalid unit/date/time/zone/null/non-UTF-8, predicates and getters on right and wrong kinds, list / "
                  "dict / grid operations in and out of range, Zinc and JSON in both directions, filter parse/match, error slot probes). "
                  "Trace_CApi keeps the abstract pool / filters / error slot and compares every return value and the projection of every "
                  "touched handle with the specification (codec results through ZincDenotes / HaysonDenotes / Eval). distinct = calls"
                  % (nfn, 2 if q else 3, n, "30" if q else "60"),
                  ["the harness reads handles it owns to project them (it is Rust); unit and zone existence are logged oracle facts "
                   "(lookup correctness is C15 / C06)", "decoder leniency on non-sentences is admitted"])


def c18(ctx):
    import vlib
    q = ctx.quick
    build_asan()
    capi_coverage_guard(ctx)
    vecs, _ = tlc_mc(ctx, "MC_CApi", consts={"Depth": 2 if q else 3}, invariants=["FailureIsClean", "SuccessKeepsError", "PoolIsValues", "AllModelled", "Emit"],
                     workers=8, timeout=3000)
    vecs = vecs + capi_scripts(q)
    asan_log = ctx.path("asan-stderr.log")
    if os.path.exists(asan_log):
        os.remove(asan_log)
    env = {"HS_WORKER_STDERR": asan_log, "ASAN_OPTIONS": "detect_leaks=1:abort_on_error=0", "HS_ASAN_SELFTEST": "1"}
    vin = ctx.fresh("gen") + ".in.ndjson"
    ev1 = ctx.fresh("gen") + ".ev.ndjson"
    write_ndjson(vin, vecs)
    rc, out = vlib.sh([ASAN_HS, "run", "--in", vin, "--out", ev1], env=env, check=False, timeout=3000)
    if rc != 0:
        raise ToolError("instrumented harness failed: " + out[-2000:])
    ctx.bads += tlc_trace_stateful(ctx, "Trace_CApi", ev1, "capi.begin", shards=14)
    note_events(ctx, ev1, key=lambda e: ["g", e.get("i")], trivial=lambda e: e.get("op") != "capi")
    n = 150 if q else 5000
    ev2 = ctx.fresh("rec") + ".ev.ndjson"
    rc, out = vlib.sh([ASAN_HS, "rec", "capi", "--n", str(n), "--len", "30" if q else "60", "--seed", str(ctx.seed), "--out", ev2], env=env, check=False, timeout=3400)
    if rc != 0:
        raise ToolError("instrumented harness failed: " + out[-2000:])
    evs = read_ndjson(ev2)
    if not any(e.get("op") == "capi.selftest" and not e.get("skipped") for e in evs):
        raise ToolError("sanitizer negative controls did not run")
    if not all(e.get("instrumented") for e in evs if e.get("op") == "capi.end"):
        raise ToolError("histories were not executed by the instrumented build")
    ctx.bads += tlc_trace_stateful(ctx, "Trace_CApi", ev2, "capi.begin", shards=14)
    note_events(ctx, ev2, key=lambda e: ["r", e.get("i")], trivial=lambda e: e.get("op") not in ("capi", "capi.null"))
    nulls = len([e for e in evs if e.get("op") == "capi.null"])
    return finish(ctx,
                  "the histories of C17 (every MC_CApi history of length <= %d and %d random histories), each closed by the specification's "
                  "clean-up suffix (every outstanding string and live handle destroyed exactly once), executed by a harness built with "
                  "AddressSanitizer + LeakSanitizer in a worker process: a report or a panic across the boundary kills the worker (outcome "
                  "abort), __lsan_do_recoverable_leak_check runs at the end of every history; Trace_CApi additionally checks the model's "
                  "accounting (no handle or string outstanding at the end) and the null matrix: %d (function, pointer parameter) pairs, all "
                  "other arguments valid -> sentinel and a retrievable error. Negative controls (planted leak, double destroy) must be seen "
                  "by the monitor. distinct = calls + null cases" % (2 if q else 3, n, nulls),
                  ["memory errors are facts about the process: observed by ASan/LSan, judged by the trace specification",
                   "filters have no destroy function in the C API; the harness releases them with Box::from_raw outside the accounting"])


def c15(ctx):
    q = ctx.quick
    vecs, _ = tlc_mc(ctx, "MC_Units", invariants=["Unique", "Readable", "ScalePositive", "Emit"], workers=8, timeout=3000)
    ev1 = hs_run(ctx, vecs, "gen")
    ctx.bads += tlc_trace(ctx, "Trace_Units", ev1, shards=14)
    note_events(ctx, ev1, key=lambda e: [e.get("id"), e.get("v")])
    ev2 = hs_rec(ctx, "units", 1 if q else 2)
    evs = [e for e in read_ndjson(ev2) if e["op"] == "units.lookup"]
    f = ctx.fresh("lookups") + ".ndjson"
    write_ndjson(f, evs)
    ctx.bads += tlc_trace(ctx, "Trace_Units", f, shards=8)
    note_events(ctx, f, key=lambda e: e.get("id"))
    return finish(ctx,
                  "MC (data theorems, exhaustive over the 443 units of UnitsDb, generated from unit-gen/units.txt by an independent "
                  "converter): no identifier belongs to two units; every symbol is a word of the Zinc unit alphabet that the number grammar "
                  "neither continues into nor cuts (numerals 1, -1.5, 1e3, 1E-3, 12_345.5). GEN (exhaustive): every identifier of every unit "
                  "looked up (must return the database row: ids, dimension vector, scale and offset numerals), ~7 near-miss strings per "
                  "identifier (must return nothing unless they are identifiers), every unit x 7 magnitudes (0, 1, -1, -1.5, 0.001, 1e21, "
                  "1.2345678e-5) through Zinc and Hayson. REC: %d random non-identifier strings. distinct = distinct lookups / codec values"
                  % (2000 if q else 20000),
                  ["UnitsDb.tla is regenerated from /repo/unit-gen/units.txt on every run; units_generated.rs is not read"],
                  exhaustive=True)


def c16(ctx):
    q = ctx.quick
    tlc_mc(ctx, "MC_Units", invariants=["Unique", "Readable", "ScalePositive"], workers=8, timeout=3000, want_vectors=False)
    ev2 = hs_rec(ctx, "units", 1 if q else 2)
    evs = [e for e in read_ndjson(ev2) if e["op"] != "units.lookup"]
    f = ctx.fresh("conv") + ".ndjson"
    write_ndjson(f, evs)
    ctx.bads += tlc_trace(ctx, "Trace_Units", f, shards=14, per_shard_min=20)
    for e in evs:
        if e["op"] in ("units.conv", "units.muldiv", "units.addsub"):
            ctx.evaluations += len(e["results"]) if e["op"] == "units.conv" else e.get("pairs", 0)
    note_events(ctx, f, key=lambda e: [e.get("op"), e.get("a"), e.get("x"), e.get("b")])
    return finish(ctx,
                  "exhaustive over all 443 x 443 ordered pairs of database units: convert_to succeeds iff the dimension vectors are equal; when "
                  "it succeeds the result is within 1e-12 (relative to the magnitudes involved) of ((x*scale_a + off_a) - off_b)/scale_b "
                  "evaluated exactly on the decimal numerals of units.txt, and converting back returns x (magnitudes: %s); unit * and / over "
                  "all ordered pairs: a yielded unit must have dimension = sum / difference and scale = product / quotient within 1e-3; "
                  "Number + and - over all ordered pairs: accepted exactly for equal units, the sum carries that unit; "
                  "Number + - * / over {none, m, s, kWh, h, degF, kW} x 6 magnitudes: common unit kept, different units fail for + -, "
                  "value = the IEEE result. Each conv / muldiv event covers one source unit against all 443 targets; evaluations counts "
                  "pairs" % ("one of {0, 1, -40, 1000.5} per source unit" if q else "0, 1, -40, 1000.5"),
                  ["exact decimal arithmetic by java.math.BigDecimal through the HsNum override; quotients to 60 significant digits"],
                  exhaustive=True)


def c12(ctx):
    q = ctx.quick
    vecs, _ = tlc_mc(ctx, "MC_Order", invariants=["HasNearCollisions", "NoNaN", "Emit"], workers=4, timeout=1200)
    ev1 = hs_run(ctx, [{"op": "ord.universe", "values": [x["v"] for x in vecs]}], "gen")
    ctx.bads += tlc_trace_stateful(ctx, "Trace_Order", ev1, "none", shards=1)
    note_events(ctx, ev1, key=lambda e: ["g", e.get("idx")], trivial=lambda e: e.get("op") != "ord.row")
    n = 6 if q else 200
    ev2 = hs_rec(ctx, "order", n)
    evs = read_ndjson(ev2)
    # one TLC per universe group: cut after every ord.end
    groups, cur = [], []
    for e in evs:
        cur.append(e)
        if e["op"] == "ord.end":
            groups.append(cur)
            cur = []
    import concurrent.futures
    files = []
    for g in groups:
        f = ctx.fresh("uni") + ".ndjson"
        write_ndjson(f, g)
        files.append(f)
    with concurrent.futures.ThreadPoolExecutor(max_workers=14) as ex:
        for r in ex.map(lambda f: tlc_trace(ctx, "Trace_Order", f, 1), files):
            ctx.bads += r
    note_events(ctx, ev2, key=lambda e: ["r", e.get("i")], trivial=lambda e: e.get("op") != "ord.row")
    nvals = len(vecs)
    ctx.evaluations += nvals * nvals + n * 70 * 70
    return finish(ctx,
                  "GEN: MC_Order supplies a universe of %d values with the near-collisions the property lists (+0/-0, same magnitude with m / s "
                  "/ kW / no unit, Refs differing only in display name, dicts differing in one key or one value, list prefixes, equal "
                  "instants in different zones, the same payload as Str / Uri / Symbol / XStr, grids differing only in meta / column meta / "
                  "ver; TLC checks the universe really contains them and no NaN); the harness evaluates ==, !=, cmp, partial_cmp on every "
                  "ordered pair, two independently keyed hashes and clone on every element, and HashSet / BTreeSet / sort+dedup sizes; "
                  "Trace_Order accumulates the matrices and checks every law by exhaustive quantification over all pairs and triples. "
                  "REC: %d random universes of 70 values (with planted duplicates). distinct = matrix rows" % (nvals, n),
                  ["NaN excluded as the property says", "hash equality is required only for equal values"])


def c20(ctx):
    q = ctx.quick
    vm, _ = tlc_mc(ctx, "MC_Dis", consts={"Mode": '"macro"', "MaxLen": 4 if q else 5}, invariants=["MacroLaws", "Emit"], workers=8, timeout=3000)
    vr, _ = tlc_mc(ctx, "MC_Dis", consts={"Mode": '"rec"', "MaxLen": 1}, invariants=["Emit"], workers=8, timeout=3000)
    ev1 = hs_run(ctx, strip_numerals(vm + vr), "gen")
    ctx.bads += tlc_trace(ctx, "Trace_Dis", ev1, shards=14)
    note_events(ctx, ev1, key=lambda e: [e.get("pattern"), e.get("rec"), len(e.get("tags", []))])
    n = 3000 if q else 60000
    ev2 = hs_rec(ctx, "dis", n)
    ctx.bads += tlc_trace(ctx, "Trace_Dis", ev2, shards=14)
    note_events(ctx, ev2, key=lambda e: ["r", e.get("i")])
    return finish(ctx,
                  "GEN: every macro pattern of length <= %d over the alphabet $ { } < > a B 1 _ space e-acute (TLC checks on each: text without $ "
                  "unchanged, verbatim when nothing resolves, at most the two admissible outputs), each substituted by libhaystack against "
                  "a scope where the referenced tags / keys exist and against an empty scope; 12160 records: all 2^8 presence patterns of "
                  "dis disMacro disKey name def tag navName id with Str / macro Str / Number / Ref with and without dis / Marker / Bool in "
                  "the two highest-priority present tags, through HaystackDict::dis and dict_to_dis with a localiser and a default. REC: %d "
                  "longer random patterns and records with values of every kind. Trace_Dis requires the result to be one of the admissible "
                  "outputs of Dis.tla (one-character names deliberately open). distinct = distinct patterns / records" % (4 if q else 5, n),
                  ["display text of a non-Str value is libhaystack's Display, checked against the value by DisTextOk (Zinc reader)"])


def c19(ctx):
    q = ctx.quick
    vc, _ = tlc_mc(ctx, "MC_Kinds", consts={"Mode": '"code"', "MaxRows": 1}, invariants=["TablesOk", "GridLaws", "Emit"], workers=4, timeout=1200)
    vn, _ = tlc_mc(ctx, "MC_Kinds", consts={"Mode": '"name"', "MaxRows": 1}, invariants=["TablesOk", "Emit"], workers=4, timeout=1200)
    vg, _ = tlc_mc(ctx, "MC_Kinds", consts={"Mode": '"rows"', "MaxRows": 2 if q else 3}, invariants=["GridLaws", "Emit"], workers=8, timeout=3000)
    vv, _ = tlc_mc(ctx, "MC_Order", invariants=["NoNaN", "Emit"], workers=4, timeout=1200)
    vals = [{"op": "kind.value", "v": x["v"]} for x in vv]
    ev1 = hs_run(ctx, vc + vn + [{"op": "kind.endmark"}] + vals + vg, "gen")
    ctx.bads += tlc_trace_stateful(ctx, "Trace_Kinds", ev1, "none", shards=1)
    note_events(ctx, ev1, key=lambda e: [e.get("op"), e.get("code"), e.get("name"), e.get("v"), e.get("rows")])
    n = 2000 if q else 40000
    ev2 = hs_rec(ctx, "kinds", n)
    ctx.bads += tlc_trace(ctx, "Trace_Kinds", ev2, shards=14)
    note_events(ctx, ev2, key=lambda e: ["r", e.get("i")])
    return finish(ctx,
                  "exhaustive: all 256 u8 codes (TryFrom<u8>, as u8, From<kind> for &str, Display, TryFrom<&str> must commute), all 18 kind names "
                  "and 9 near misses, accumulated into tables that must be one-to-one onto the 18 names; every value of the C12 universe: "
                  "exactly one of the 18 predicates, kind name, every TryFrom<&Value> and every typed dict getter / has_* succeeds exactly "
                  "for the matching kind and returns the stored payload; every list of <= %d records over the keys a b c B e-acute (TLC "
                  "checks the specification's GridFromDicts: rows kept, columns sorted, duplicate-free, covering) through "
                  "Grid::make_from_dicts, Value::make_grid_from_dicts and make_from_dicts_with_meta. REC: %d random values, %d random lists "
                  "of 0-30 records. distinct = distinct cases" % (2 if q else 3, n, n // 4),
                  ["the numeric codes themselves are not prescribed, only that code / enumeration / name are one-to-one and commute"],
                  exhaustive=True)


CHECKS = {"C19": c19, "C20": c20, "C12": c12, "C15": c15, "C16": c16, "C17": c17, "C18": c18, "C14": c14, "C13": c13, "C07": c07, "C08": c08, "C09": c09, "C10": c10, "C11": c11, "C03": c03, "C06": c06, "C01": c01, "C02": c02, "C04": c04, "C05": c05}

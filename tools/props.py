"""Per-property pipelines. Each function takes a vlib.Ctx and returns the exit code."""
import json, os
from vlib import tlc_mc, tlc_trace, hs_run, hs_rec, note_events, finish, ToolError, log, read_ndjson, write_ndjson

SCALAR_TRIVIAL = {"null", "marker", "remove", "na", "bool"}


def trivial_value(e):
    v = e.get("v")
    return isinstance(v, dict) and v.get("k") in SCALAR_TRIVIAL


def zinc_universe(ctx, depth):
    vecs, out = tlc_mc(ctx, "MC_Zinc", consts={"MaxDepth": depth, "EmitVectors": "TRUE"},
                       invariants=["WellFormed", "RoundTrip", "CanonIsPlain", "Emit"], workers=8, timeout=3000)
    if len(vecs) != ctx.mc_runs[-1]["distinct_states"]:
        raise ToolError("MC_Zinc emitted %d vectors for %d states" % (len(vecs), ctx.mc_runs[-1]["distinct_states"]))
    return vecs


def c01(ctx):
    depth = 2 if ctx.quick else 3
    vecs = zinc_universe(ctx, depth)
    rt = [{"op": "zinc.rt", "v": x["v"]} for x in vecs]
    ev1 = hs_run(ctx, rt, "gen")
    ctx.bads += tlc_trace(ctx, "Trace_Zinc", ev1, shards=12)
    note_events(ctx, ev1, trivial=trivial_value)
    n = 4000 if ctx.quick else 80000
    ev2 = hs_rec(ctx, "zinc", n, ["--depth", "3" if ctx.quick else "5"])
    ctx.bads += tlc_trace(ctx, "Trace_Zinc", ev2, shards=14)
    note_events(ctx, ev2, trivial=trivial_value)
    return finish(ctx,
                  "GEN: every state of MC_Zinc (values built by constructor actions to depth %d) encoded+decoded by libhaystack; "
                  "REC: %d seeded random well-formed values (depth<=%s, arbitrary Unicode, random f64 bits, all units, all "
                  "unambiguous zones); TLC (Trace_Zinc) requires outcome=ok and Same(back,v). distinct = distinct input values, "
                  "excluding payload-free scalars" % (depth, n, "3" if ctx.quick else "5"),
                  ["chrono-tz offsets are facts", "alpha/gamma projection is faithful"])


def c04(ctx):
    depth = 2 if ctx.quick else 3
    vecs = zinc_universe(ctx, depth)
    names = ["plain", "sp+comma", "tabsp+trail", "crlf+endnl", "uni+dot0", "UNI+e0", "raw+E+0", "shift+endnl", "us", "alt"]
    reads = []
    for x in vecs:
        seen = set()
        for i, t in enumerate(x["texts"]):
            key = json.dumps(t)
            if key in seen:
                continue
            seen.add(key)
            reads.append({"op": "zinc.read", "v": x["v"], "text": t, "st": names[i]})
    rt = [{"op": "zinc.rt", "v": x["v"]} for x in vecs]
    ev1 = hs_run(ctx, reads + rt, "gen")
    ctx.bads += tlc_trace(ctx, "Trace_Zinc", ev1, shards=14)
    note_events(ctx, ev1, key=lambda e: [e.get("v"), e.get("text")], trivial=trivial_value)
    n = 3000 if ctx.quick else 60000
    ev2 = hs_rec(ctx, "zinc", n, ["--depth", "3" if ctx.quick else "5"])
    ctx.bads += tlc_trace(ctx, "Trace_Zinc", ev2, shards=14)
    note_events(ctx, ev2, trivial=trivial_value)
    return finish(ctx,
                  "spec writes / libhaystack reads: every distinct spelling (10 styles) of every MC_Zinc state (depth %d) decoded by "
                  "libhaystack, TLC requires Same(decoded, v); libhaystack writes / spec reads: the text libhaystack emits for every "
                  "state and for %d random values must satisfy ZincDenotes(text, v) (the TLA+ grammar reader). distinct = distinct "
                  "(value, text) pairs excluding payload-free scalars" % (depth, n),
                  ["Zinc.tla is a faithful transcription of the published grammar; debatable forms (optional uri escapes, "
                   "\\u surrogate pairs, bare CR) are never written by the spec writer"])


def hayson_universe(ctx, depth):
    vecs, out = tlc_mc(ctx, "MC_Hayson", consts={"MaxDepth": depth, "EmitVectors": "TRUE"},
                       invariants=["RoundTrip", "Emit"], workers=8, timeout=3000)
    if len(vecs) != ctx.mc_runs[-1]["distinct_states"]:
        raise ToolError("MC_Hayson emitted %d vectors for %d states" % (len(vecs), ctx.mc_runs[-1]["distinct_states"]))
    return vecs


def c02(ctx):
    depth = 2 if ctx.quick else 3
    vecs = hayson_universe(ctx, depth)
    ev1 = hs_run(ctx, [{"op": "hayson.rt", "v": x["v"]} for x in vecs], "gen")
    ctx.bads += tlc_trace(ctx, "Trace_Hayson", ev1, shards=12)
    note_events(ctx, ev1, trivial=trivial_value)
    n = 4000 if ctx.quick else 80000
    ev2 = hs_rec(ctx, "hayson", n, ["--depth", "3" if ctx.quick else "5"])
    ctx.bads += tlc_trace(ctx, "Trace_Hayson", ev2, shards=14)
    note_events(ctx, ev2, trivial=trivial_value)
    return finish(ctx,
                  "GEN: every state of MC_Hayson (depth %d) serialised through to_string/to_vec/to_value and deserialised through "
                  "from_str/from_slice/from_value (7 combinations) plus the typed Serialize/Deserialize pair of the payload; REC: %d "
                  "seeded random well-formed values; TLC (Trace_Hayson) requires every combination ok and Same(back, v). distinct = "
                  "distinct input values excluding payload-free scalars" % (depth, n),
                  ["chrono-tz offsets are facts", "serde_json implements JSON syntax correctly (tokenising is trusted, Hayson meaning is not)"])


def c05(ctx):
    depth = 2 if ctx.quick else 3
    vecs = hayson_universe(ctx, depth)
    names = ["plain", "rev", "rot+dictKind", "metaAbsent+dot0", "metaEmpty+e0+utcTz", "rev+shift+dictKind+metaAbsent", "rot+E+0+utcTz"]
    reads = []
    for x in vecs:
        seen = set()
        for i, t in enumerate(x["trees"]):
            key = json.dumps(t, sort_keys=True)
            if key in seen:
                continue
            seen.add(key)
            reads.append({"op": "hayson.read", "v": x["v"], "tree": t, "st": names[i]})
    rt = [{"op": "hayson.rt", "v": x["v"]} for x in vecs]
    ev1 = hs_run(ctx, reads + rt, "gen")
    ctx.bads += tlc_trace(ctx, "Trace_Hayson", ev1, shards=14)
    note_events(ctx, ev1, key=lambda e: [e.get("v"), e.get("tree")], trivial=trivial_value)
    n = 3000 if ctx.quick else 60000
    ev2 = hs_rec(ctx, "hayson", n, ["--depth", "3" if ctx.quick else "5"])
    ctx.bads += tlc_trace(ctx, "Trace_Hayson", ev2, shards=14)
    note_events(ctx, ev2, trivial=trivial_value)
    return finish(ctx,
                  "spec writes / libhaystack reads: every distinct JSON tree (7 styles: member orders fwd/rev/rotated, _kind:dict "
                  "present/absent, meta absent/empty/with ver, tz on UTC, number spellings) of every MC_Hayson state (depth %d); "
                  "libhaystack writes / spec reads: the JSON libhaystack emits for every state and %d random values must satisfy "
                  "HaysonDenotes(tree, v). distinct = distinct (value, tree) pairs" % (depth, n),
                  ["Hayson.tla transcribes docHaystack/Json; JSON tokenising/printing (harness/src/jtree.rs) is trusted"])


def c06(ctx):
    vecs, out = tlc_mc(ctx, "MC_Time", consts={"EmitVectors": "TRUE", "Full": "FALSE" if ctx.quick else "TRUE"},
                       invariants=["RfcRoundTrip", "RfcNoZRoundTrip", "ZincRoundTrip", "Emit"], workers=8, timeout=3000)
    ev1 = hs_run(ctx, vecs, "gen")
    ctx.bads += tlc_trace(ctx, "Trace_Time", ev1, shards=12)
    note_events(ctx, ev1, key=lambda e: e.get("text"))
    ev2 = hs_rec(ctx, "time", 0, ["--per-zone", "8" if ctx.quick else "0"])
    ctx.bads += tlc_trace(ctx, "Trace_Time", ev2, shards=14)
    note_events(ctx, ev2, key=lambda e: [e.get("tzid"), e.get("unix"), e.get("ns")])
    return finish(ctx,
                  "GEN: MC_Time enumerates RFC 3339 texts for all 105 offsets -12:00..+14:00 (15 min steps) x corner instants x 0..9 "
                  "fraction digits; each is given to parse_from_rfc3339 / FromStr / make_datetime_from_iso and TLC recomputes the "
                  "instant from the text. REC: every zone of the bundled tz database with an unambiguous city name x (%s) of its "
                  "1980-2060 offset transitions x {t-1s, t, t+1s, t-30min, t+30min} + 2 mid-period instants, through the instant+zone "
                  "constructor, parse_from_rfc3339_with_timezone (text at a random offset), Zinc and Hayson round trips. distinct = "
                  "distinct texts / (zone, instant) pairs" % ("8 per zone" if ctx.quick else "all"),
                  ["chrono-tz's offset_from_utc_datetime is the tz database oracle (the property is about libhaystack keeping instant "
                   "and zone, not about tzdata)", "zone unambiguity decided by exact comparison of offset functions 1980-2060"],
                  exhaustive=not ctx.quick)


CHECKS = {"C06": c06, "C01": c01, "C02": c02, "C04": c04, "C05": c05}

#!/bin/bash
# one-time setup after a fresh restore (offline): compile the TLC override class, build the harness, parse all specs
set -e
V="$(cd "$(dirname "${BASH_SOURCE[0]}")/.." && pwd)"
cd "$V/spec/overrides" && javac -cp /opt/veriftools/tla/tla2tools.jar HsOverrides.java
cd "$V/harness" && [ -f Cargo.lock ] || cp /repo/Cargo.lock Cargo.lock
cd "$V/harness" && CARGO_NET_OFFLINE=true cargo build --release --offline 2>&1 | tail -3
(cd "$V/harness" && RUSTFLAGS="-Zsanitizer=address --cfg libhaystack_verif --check-cfg cfg(libhaystack_verif) --cfg hs_asan --check-cfg cfg(hs_asan)" CARGO_NET_OFFLINE=true cargo +nightly build --release --offline --target x86_64-unknown-linux-gnu --target-dir target-asan 2>&1 | tail -2)
python3 "$V/tools/units2tla.py" /repo/unit-gen/units.txt "$V/spec/UnitsDb.tla"
cd "$V/spec" && for f in *.tla; do tla-sany "$f" > /dev/null 2>&1 || { echo "SANY failed on $f"; tla-sany "$f" | tail -20; exit 1; }; done
mkdir -p "$V/out" "$V/evidence"
echo setup ok

"""CRLF-preserving text replacement in /repo files: repoedit.py FILE  (reads python dict literal {old: new,...} from stdin)"""
import sys, ast
p = sys.argv[1]
s = open(p, newline='').read()
crlf = '\r\n' in s
t = s.replace('\r\n', '\n')
for old, new in ast.literal_eval(sys.stdin.read()).items():
    if old not in t:
        print("NOT FOUND:", old[:80]); sys.exit(1)
    t = t.replace(old, new)
if crlf:
    t = t.replace('\n', '\r\n')
open(p, 'w', newline='').write(t)
print("edited", p, "crlf" if crlf else "lf")

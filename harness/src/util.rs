//! RNG, panic capture, event output.

use serde_json::{json, Value as J};
use std::io::Write;
use std::panic::{catch_unwind, AssertUnwindSafe};

pub struct Rng(pub u64);

impl Rng {
    pub fn new(seed: u64) -> Self {
        Rng(seed.wrapping_mul(0x9E3779B97F4A7C15) ^ 0xD1B54A32D192ED03)
    }
    pub fn next(&mut self) -> u64 {
        // splitmix64
        self.0 = self.0.wrapping_add(0x9E3779B97F4A7C15);
        let mut z = self.0;
        z = (z ^ (z >> 30)).wrapping_mul(0xBF58476D1CE4E5B9);
        z = (z ^ (z >> 27)).wrapping_mul(0x94D049BB133111EB);
        z ^ (z >> 31)
    }
    pub fn below(&mut self, n: usize) -> usize {
        if n == 0 {
            0
        } else {
            (self.next() % n as u64) as usize
        }
    }
    pub fn range(&mut self, lo: i64, hi: i64) -> i64 {
        lo + (self.next() % ((hi - lo + 1) as u64)) as i64
    }
    pub fn chance(&mut self, num: usize, den: usize) -> bool {
        self.below(den) < num
    }
    pub fn pick<'a, T>(&mut self, xs: &'a [T]) -> &'a T {
        &xs[self.below(xs.len())]
    }
}

static LAST_PANIC_AT: std::sync::Mutex<String> = std::sync::Mutex::new(String::new());

/// no panic chatter on stderr; the source location of the last panic is kept for `last_panic_at`
pub fn silence_panics() {
    std::panic::set_hook(Box::new(|info| {
        if let (Some(l), Ok(mut g)) = (info.location(), LAST_PANIC_AT.lock()) {
            *g = format!("{}:{}", l.file(), l.line());
        }
    }));
}

pub fn last_panic_at() -> String {
    LAST_PANIC_AT.lock().map(|g| g.clone()).unwrap_or_default()
}

/// true when the location is inside libhaystack (or one of its dependencies), not inside this harness
pub fn panic_in_library(at: &str) -> bool {
    !at.is_empty() && !at.starts_with("src/") && !at.contains("/verif/harness/")
}

/// Runs f; a panic becomes Err(message).
pub fn guarded<T>(f: impl FnOnce() -> T) -> Result<T, String> {
    match catch_unwind(AssertUnwindSafe(f)) {
        Ok(v) => Ok(v),
        Err(e) => {
            let msg = if let Some(s) = e.downcast_ref::<&str>() {
                s.to_string()
            } else if let Some(s) = e.downcast_ref::<String>() {
                s.clone()
            } else {
                "panic".to_string()
            };
            Err(msg)
        }
    }
}

pub struct Out {
    w: std::io::BufWriter<std::fs::File>,
    pub n: usize,
}

impl Out {
    pub fn create(path: &str) -> Out {
        Out {
            w: std::io::BufWriter::new(std::fs::File::create(path).expect("create output")),
            n: 0,
        }
    }
    pub fn emit(&mut self, mut ev: J) {
        self.n += 1;
        ev.as_object_mut().unwrap().insert("i".into(), json!(self.n));
        serde_json::to_writer(&mut self.w, &ev).unwrap();
        self.w.write_all(b"\n").unwrap();
    }
    pub fn finish(mut self) -> usize {
        self.w.flush().unwrap();
        self.n
    }
}

/// ASCII-only rendering of a message for logs (TLC strings are fine with anything, but keep traces small)
pub fn short(msg: &str) -> String {
    let s: String = msg.chars().filter(|c| c.is_ascii() && !c.is_ascii_control()).take(120).collect();
    s
}

pub fn read_lines(path: &str) -> Vec<J> {
    let text = std::fs::read_to_string(path).unwrap_or_else(|e| panic!("read {path}: {e}"));
    text.lines()
        .filter(|l| !l.trim().is_empty())
        .map(|l| serde_json::from_str(l).unwrap_or_else(|e| panic!("bad vector line {l}: {e}")))
        .collect()
}

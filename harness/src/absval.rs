//! Projection alpha : libhaystack Value -> abstract JSON, and instantiation gamma : abstract JSON -> Value.
//! Uses only public fields / constructors of libhaystack. alpha is finer than Rust `==`:
//! it exposes Ref dis, the local offset and zone name of timestamps, the bits of numbers.
//! Shapes are those of /verif/spec/HsCore.tla.

use chrono::{Datelike, NaiveDate, Offset, TimeZone, Timelike, Utc};
use libhaystack::units::get_unit;
use libhaystack::val::*;
use serde_json::{json, Map, Value as J};

pub fn cps(s: &str) -> J {
    J::Array(s.chars().map(|c| J::from(c as u32)).collect())
}

pub fn text_of(j: &J) -> Result<String, String> {
    let arr = j.as_array().ok_or_else(|| format!("expected code point array, got {j}"))?;
    let mut s = String::new();
    for c in arr {
        let n = c.as_u64().ok_or("bad code point")? as u32;
        s.push(char::from_u32(n).ok_or_else(|| format!("not a scalar value: {n}"))?);
    }
    Ok(s)
}

pub fn bits(f: f64) -> J {
    J::String(format!("0x{:016x}", f.to_bits()))
}

pub fn f64_of(j: &J) -> Result<f64, String> {
    let s = j.as_str().ok_or("bits must be a string")?;
    let b = u64::from_str_radix(s.trim_start_matches("0x"), 16).map_err(|e| e.to_string())?;
    Ok(f64::from_bits(b))
}

fn opt_text(o: &Option<String>) -> J {
    match o {
        Some(s) => J::Array(vec![cps(s)]),
        None => J::Array(vec![]),
    }
}

pub fn tags(d: &Dict) -> J {
    J::Array(d.iter().map(|(k, v)| J::Array(vec![cps(k), alpha(v)])).collect())
}

fn opt_tags(d: &Option<Dict>) -> J {
    match d {
        Some(d) => tags(d),
        None => J::Array(vec![]),
    }
}

pub fn epoch2000() -> NaiveDate {
    NaiveDate::from_ymd_opt(2000, 1, 1).unwrap()
}

pub fn alpha_datetime(dt: &DateTime) -> J {
    let utc = dt.naive_utc();
    let day = (utc.date() - epoch2000()).num_days();
    json!({"k":"dt","day":day,"sod":utc.time().num_seconds_from_midnight(),"ns":utc.time().nanosecond(),
           "off":dt.offset().fix().local_minus_utc(),"tz":cps(&dt.timezone_short_name())})
}

pub fn alpha_number(n: &Number) -> J {
    let unit = match n.unit {
        Some(u) => J::Array(vec![cps(u.symbol())]),
        None => J::Array(vec![]),
    };
    json!({"k":"num","bits":bits(n.value),"unit":unit})
}

pub fn alpha_grid(g: &Grid) -> J {
    let cols: Vec<J> = g
        .columns
        .iter()
        .map(|c| json!({"name":cps(&c.name),"meta":opt_tags(&c.meta)}))
        .collect();
    let rows: Vec<J> = g.rows.iter().map(tags).collect();
    json!({"k":"grid","ver":cps(&g.ver),"meta":opt_tags(&g.meta),"cols":cols,"rows":rows})
}

pub fn alpha(v: &Value) -> J {
    match v {
        Value::Null => json!({"k":"null"}),
        Value::Remove => json!({"k":"remove"}),
        Value::Marker => json!({"k":"marker"}),
        Value::Na => json!({"k":"na"}),
        Value::Bool(b) => json!({"k":"bool","b":b.value}),
        Value::Number(n) => alpha_number(n),
        Value::Str(s) => json!({"k":"str","s":cps(&s.value)}),
        Value::Uri(s) => json!({"k":"uri","s":cps(&s.value)}),
        Value::Symbol(s) => json!({"k":"symbol","s":cps(&s.value)}),
        Value::Ref(r) => json!({"k":"ref","id":cps(&r.value),"dis":opt_text(&r.dis)}),
        Value::XStr(x) => json!({"k":"xstr","t":cps(&x.r#type),"s":cps(&x.value)}),
        Value::Date(d) => json!({"k":"date","y":d.year(),"m":d.month(),"d":d.day()}),
        Value::Time(t) => json!({"k":"time","h":t.hour(),"mi":t.minute(),"s":t.second(),"ns":t.nanosecond()}),
        Value::DateTime(dt) => alpha_datetime(dt),
        Value::Coord(c) => json!({"k":"coord","lat":bits(c.lat),"lng":bits(c.long)}),
        Value::List(l) => json!({"k":"list","items":l.iter().map(alpha).collect::<Vec<J>>()}),
        Value::Dict(d) => json!({"k":"dict","tags":tags(d)}),
        Value::Grid(g) => alpha_grid(g),
    }
}

fn get<'a>(o: &'a Map<String, J>, k: &str) -> Result<&'a J, String> {
    o.get(k).ok_or_else(|| format!("missing field {k}"))
}

fn opt_text_of(j: &J) -> Result<Option<String>, String> {
    let a = j.as_array().ok_or("expected option array")?;
    if a.is_empty() {
        Ok(None)
    } else {
        Ok(Some(text_of(&a[0])?))
    }
}

pub fn gamma_tags(j: &J) -> Result<Dict, String> {
    let mut d = Dict::new();
    for t in j.as_array().ok_or("tags must be an array")? {
        let pair = t.as_array().ok_or("tag must be a pair")?;
        d.insert(text_of(&pair[0])?, gamma(&pair[1])?);
    }
    Ok(d)
}

fn gamma_opt_tags(j: &J) -> Result<Option<Dict>, String> {
    let d = gamma_tags(j)?;
    Ok(if d.is_empty() { None } else { Some(d) })
}

pub fn gamma_datetime(o: &Map<String, J>) -> Result<DateTime, String> {
    let day = get(o, "day")?.as_i64().ok_or("day")?;
    let sod = get(o, "sod")?.as_u64().ok_or("sod")? as u32;
    let ns = get(o, "ns")?.as_u64().ok_or("ns")? as u32;
    let tz = text_of(get(o, "tz")?)?;
    let date = epoch2000() + chrono::Duration::days(day);
    let naive = date
        .and_hms_nano_opt(sod / 3600, (sod / 60) % 60, sod % 60, ns)
        .ok_or("bad time of day")?;
    let utc = Utc.from_utc_datetime(&naive);
    // the zone is resolved against the bundled database here, not by libhaystack's name lookup: a model value is
    // constructible whatever the decoders make of its zone name
    let zone: chrono_tz::Tz = match tz.parse::<chrono_tz::Tz>() {
        Ok(z) => z,
        Err(_) => *chrono_tz::TZ_VARIANTS
            .iter()
            .find(|z| crate::gen::short_name(z.name()) == tz)
            .ok_or_else(|| format!("TOOL: model zone {tz} is not in the tz database"))?,
    };
    let dt: DateTime = DateTime::from(utc.with_timezone(&zone));
    if let Some(off) = o.get("off").and_then(|x| x.as_i64()) {
        let real = dt.offset().fix().local_minus_utc() as i64;
        if real != off {
            return Err(format!("TOOL: model offset {off} for zone {tz} disagrees with tz database {real}"));
        }
    }
    Ok(dt)
}

pub fn gamma(j: &J) -> Result<Value, String> {
    let o = j.as_object().ok_or_else(|| format!("value must be an object: {j}"))?;
    let k = get(o, "k")?.as_str().ok_or("k must be a string")?;
    Ok(match k {
        "null" => Value::Null,
        "remove" => Value::Remove,
        "marker" => Value::Marker,
        "na" => Value::Na,
        "bool" => Value::make_bool(get(o, "b")?.as_bool().ok_or("b")?),
        "num" => {
            let f = f64_of(get(o, "bits")?)?;
            match opt_text_of(get(o, "unit")?)? {
                Some(u) => Value::Number(Number {
                    value: f,
                    unit: Some(get_unit(&u).ok_or_else(|| format!("TOOL: unknown unit {u}"))?),
                }),
                None => Value::make_number(f),
            }
        }
        "str" => Value::make_str(&text_of(get(o, "s")?)?),
        "uri" => Value::make_uri(&text_of(get(o, "s")?)?),
        "symbol" => Value::make_symbol(&text_of(get(o, "s")?)?),
        "ref" => Value::Ref(Ref {
            value: text_of(get(o, "id")?)?,
            dis: opt_text_of(get(o, "dis")?)?,
        }),
        "xstr" => Value::make_xstr_from(&text_of(get(o, "t")?)?, &text_of(get(o, "s")?)?),
        "date" => Value::make_date(Date::from_ymd(
            get(o, "y")?.as_i64().ok_or("y")? as i32,
            get(o, "m")?.as_u64().ok_or("m")? as u32,
            get(o, "d")?.as_u64().ok_or("d")? as u32,
        )?),
        "time" => {
            let t = chrono::NaiveTime::from_hms_nano_opt(
                get(o, "h")?.as_u64().ok_or("h")? as u32,
                get(o, "mi")?.as_u64().ok_or("mi")? as u32,
                get(o, "s")?.as_u64().ok_or("s")? as u32,
                get(o, "ns")?.as_u64().ok_or("ns")? as u32,
            )
            .ok_or("bad time")?;
            Value::make_time(Time::from(t))
        }
        "dt" => Value::make_datetime(gamma_datetime(o)?),
        "coord" => Value::make_coord_from(f64_of(get(o, "lat")?)?, f64_of(get(o, "lng")?)?),
        "list" => {
            let mut l = List::new();
            for i in get(o, "items")?.as_array().ok_or("items")? {
                l.push(gamma(i)?);
            }
            Value::make_list(l)
        }
        "dict" => Value::make_dict(gamma_tags(get(o, "tags")?)?),
        "grid" => {
            let mut columns = Vec::new();
            for c in get(o, "cols")?.as_array().ok_or("cols")? {
                let co = c.as_object().ok_or("col")?;
                columns.push(Column {
                    name: text_of(get(co, "name")?)?,
                    meta: gamma_opt_tags(get(co, "meta")?)?,
                });
            }
            let mut rows = Vec::new();
            for r in get(o, "rows")?.as_array().ok_or("rows")? {
                rows.push(gamma_tags(r)?);
            }
            let meta_some = o.get("meta_some").and_then(|b| b.as_bool()).unwrap_or(false);
            let meta = gamma_opt_tags(get(o, "meta")?)?;
            Value::make_grid(Grid {
                meta: if meta.is_none() && meta_some { Some(Dict::new()) } else { meta },
                columns,
                rows,
                ver: text_of(get(o, "ver")?)?,
            })
        }
        other => return Err(format!("unknown kind {other}")),
    })
}

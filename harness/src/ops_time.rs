//! Time operations (C06): RFC 3339 constructors, instant+zone constructor, codec round trips at zone transitions.
use crate::absval::{alpha, alpha_datetime, cps, text_of};
use crate::gen::{short_name, unambiguous_zones};
use crate::util::{guarded, short, Out, Rng};
use chrono::{Offset, TimeZone, Utc};
use chrono_tz::Tz;
use libhaystack::encoding::zinc;
use libhaystack::timezone::make_date_time_with_tz;
use libhaystack::val::*;
use serde_json::{json, Value as J};
use std::str::FromStr;

fn dt_res(r: Result<Result<DateTime, String>, String>) -> J {
    match r {
        Ok(Ok(v)) => json!({"outcome":"ok","back":alpha_datetime(&v),"msg":""}),
        Ok(Err(e)) => json!({"outcome":"err","back":{"k":"null"},"msg":short(&e)}),
        Err(p) => json!({"outcome":"panic","back":{"k":"null"},"msg":short(&p)}),
    }
}

fn val_res(r: Result<Result<Value, String>, String>) -> J {
    match r {
        Ok(Ok(v)) => json!({"outcome":"ok","back":alpha(&v),"msg":""}),
        Ok(Err(e)) => json!({"outcome":"err","back":{"k":"null"},"msg":short(&e)}),
        Err(p) => json!({"outcome":"panic","back":{"k":"null"},"msg":short(&p)}),
    }
}

pub fn parse_event(text: &str) -> J {
    let mut results = Vec::new();
    let mut r = dt_res(guarded(|| DateTime::parse_from_rfc3339(text)));
    r["api"] = J::from("parse_from_rfc3339");
    results.push(r);
    let mut r = dt_res(guarded(|| DateTime::from_str(text)));
    r["api"] = J::from("from_str");
    results.push(r);
    let mut r = val_res(guarded(|| Value::make_datetime_from_iso(text)));
    r["api"] = J::from("make_datetime_from_iso");
    results.push(r);
    json!({"op":"time.parse","text":cps(text),"results":results})
}

pub fn run(vec: &J, out: &mut Out) -> Result<(), String> {
    let op = vec["op"].as_str().unwrap_or("");
    match op {
        "time.parse" => {
            let t = text_of(&vec["text"])?;
            out.emit(parse_event(&t));
            if let Some(t2) = vec.get("textnoz") {
                let t2 = text_of(t2)?;
                if t2 != t {
                    out.emit(parse_event(&t2));
                }
            }
            Ok(())
        }
        "time.make" => {
            // replay of a recorded zone event
            let tzid = vec["tzid"].as_str().ok_or("tzid")?;
            let tz: Tz = tzid.parse().map_err(|e: String| e)?;
            let secs: i64 = vec["unix"].as_str().ok_or("unix")?.parse().map_err(|_| "unix")?;
            let ns = vec["ns"].as_u64().ok_or("ns")? as u32;
            let off = vec["text_off"].as_i64().unwrap_or(0) as i32;
            out.emit(zone_event(&tz, secs, ns, off));
            Ok(())
        }
        _ => Err(format!("unknown time op {op}")),
    }
}

/// offset changes of a zone between 1980 and 2060 (unix seconds of the first second of the new offset)
pub fn transitions(tz: &Tz) -> Vec<i64> {
    let start = Utc.with_ymd_and_hms(1980, 1, 1, 0, 0, 0).unwrap().timestamp();
    let end = Utc.with_ymd_and_hms(2060, 1, 1, 0, 0, 0).unwrap().timestamp();
    let off = |t: i64| tz.offset_from_utc_datetime(&Utc.timestamp_opt(t, 0).unwrap().naive_utc()).fix().local_minus_utc();
    let mut out = Vec::new();
    let step = 86400 / 2;
    let mut t = start;
    let mut cur = off(t);
    while t < end {
        let n = t + step;
        let o = off(n);
        if o != cur {
            // bisect
            let (mut lo, mut hi) = (t, n);
            while hi - lo > 1 {
                let mid = (lo + hi) / 2;
                if off(mid) == cur {
                    lo = mid
                } else {
                    hi = mid
                }
            }
            out.push(hi);
            cur = o;
        }
        t = n;
    }
    out
}

pub fn rfc3339_at(secs: i64, ns: u32, off: i32, digits: usize) -> String {
    let fo = chrono::FixedOffset::east_opt(off).unwrap();
    let dt = Utc.timestamp_opt(secs, ns).unwrap().with_timezone(&fo);
    let base = dt.format("%Y-%m-%dT%H:%M:%S").to_string();
    let frac = if digits == 0 { String::new() } else { format!(".{}", &format!("{:09}", ns)[..digits]) };
    let ao = off.abs();
    let offs = if off == 0 { "Z".to_string() } else { format!("{}{:02}:{:02}", if off < 0 { '-' } else { '+' }, ao / 3600, (ao / 60) % 60) };
    format!("{base}{frac}{offs}")
}

pub fn zone_event(tz: &Tz, secs: i64, ns: u32, text_off: i32) -> J {
    let name = short_name(tz.name()).to_string();
    let utc = Utc.timestamp_opt(secs, ns).unwrap();
    let naive = utc.naive_utc();
    let oracle_off = tz.offset_from_utc_datetime(&naive).fix().local_minus_utc();
    let day = (naive.date() - crate::absval::epoch2000()).num_days();
    use chrono::Timelike;
    let sod = naive.time().num_seconds_from_midnight();
    let made = guarded(|| make_date_time_with_tz(&utc.with_timezone(&Utc.fix()), &name).map(DateTime::from));
    let made_j = dt_res(made.clone());
    let text = rfc3339_at(secs, ns, text_off, 9);
    let mut parsetz = dt_res(guarded(|| DateTime::parse_from_rfc3339_with_timezone(&text, &name)));
    parsetz["text"] = cps(&text);
    let (zinc_j, json_j) = match made {
        Ok(Ok(dt)) => {
            let v = Value::make_datetime(dt);
            let z = guarded(|| -> Result<(String, Value), String> {
                let t = zinc::encode::to_zinc_string(&v).map_err(|e| e.to_string())?;
                let b = zinc::decode::from_str(&t).map_err(|e| e.to_string())?;
                Ok((t, b))
            });
            let zj = match z {
                Ok(Ok((t, b))) => json!({"outcome":"ok","back":alpha(&b),"text":cps(&t),"msg":""}),
                Ok(Err(e)) => json!({"outcome":"err","back":{"k":"null"},"text":[],"msg":short(&e)}),
                Err(p) => json!({"outcome":"panic","back":{"k":"null"},"text":[],"msg":short(&p)}),
            };
            let j = guarded(|| -> Result<Value, String> {
                let t = serde_json::to_string(&v).map_err(|e| e.to_string())?;
                serde_json::from_str::<Value>(&t).map_err(|e| e.to_string())
            });
            (zj, val_res(j))
        }
        _ => (json!({"outcome":"skipped","back":{"k":"null"},"text":[],"msg":""}), json!({"outcome":"skipped","back":{"k":"null"},"msg":""})),
    };
    json!({"op":"time.make","tzid":tz.name(),"tz":cps(&name),"unix":secs.to_string(),"text_off":text_off,"day":day,"sod":sod,"ns":ns,
           "oracle_off":oracle_off,"made":made_j,"parsetz":parsetz,"zinc":zinc_j,"json":json_j})
}

/// REC driver: every unambiguous zone x its transitions (all, or `per_zone` of them) x instants around them
pub fn rec(out: &mut Out, seed: u64, per_zone: usize) {
    let mut rng = Rng::new(seed);
    let zones = unambiguous_zones();
    // the fraction family: no fraction, 3 / 9 digits, and fractions whose first non-zero digit stands at each position
    // (a writer that prints the fraction as an integer loses the zeros in front of it)
    let nanos = [0u32, 123_000_000, 123_456_789, 999_999_999, 500_000_000, 45_000_000, 7_000_000, 250_000, 1, 10_000_001, 50_000, 900];
    for tz in &zones {
        let mut tr = transitions(tz);
        if per_zone > 0 && tr.len() > per_zone {
            // seeded spread
            let mut pick = Vec::new();
            let stride = tr.len() as f64 / per_zone as f64;
            let shift = rng.below(stride.ceil() as usize);
            for i in 0..per_zone {
                pick.push(tr[((i as f64 * stride) as usize + shift).min(tr.len() - 1)]);
            }
            pick.dedup();
            tr = pick;
        }
        let mut instants: Vec<i64> = vec![Utc.with_ymd_and_hms(2021, 1, 15, 12, 0, 0).unwrap().timestamp(), Utc.with_ymd_and_hms(1985, 7, 15, 0, 0, 0).unwrap().timestamp()];
        for t in &tr {
            instants.extend_from_slice(&[t - 1, *t, t + 1, t - 1800, t + 1800]);
        }
        for (i, t) in instants.iter().enumerate() {
            let ns = nanos[(i + rng.below(nanos.len())) % nanos.len()];
            let text_off = (rng.range(-48, 56) * 900) as i32;
            out.emit(zone_event(tz, *t, ns, text_off));
        }
    }
}

pub fn zone_census() -> J {
    let zones = unambiguous_zones();
    json!({"unambiguous": zones.len(), "all": chrono_tz::TZ_VARIANTS.len()})
}

//! Namespace cache operations (C14): sequential query histories and real threads on a cold namespace,
//! observed through the verif hook (every cache touch and guard drop, globally sequenced).
use crate::absval::{cps, tags, text_of};
use crate::ops_defs::{deep_rows, grid_of, load_event, real_defs_grid};
use crate::util::{guarded, Out, Rng};
use libhaystack::defs::namespace::{DefDict, Namespace};
use libhaystack::val::*;
use libhaystack::verif_hooks as hooks;
use serde_json::{json, Value as J};
use std::sync::{Arc, Barrier};

#[derive(Clone, Debug)]
pub enum Q {
    Sup(String),
    AllSup(String),
    Inh(String),
    Fits(String, String),
    Reflect(Dict),
    Rel(Dict, String, Option<String>),
    Assoc(String, String),
}

fn sorted(mut v: Vec<String>) -> Vec<String> {
    v.sort();
    v.dedup();
    v
}

/// runs a query, returns its answer as a sorted name list (booleans as ["true"] / [])
pub fn answer(ns: &'static Namespace<'static>, q: &Q) -> Vec<String> {
    let names = |d: &[&Dict]| sorted(d.iter().map(|x| x.def_name().clone()).collect());
    match q {
        Q::Sup(k) => names(&ns.supertypes_of(&Symbol::from(k.as_str()))),
        Q::AllSup(k) => names(&ns.all_supertypes_of(&Symbol::from(k.as_str()))),
        Q::Inh(k) => names(&ns.inheritance(&Symbol::from(k.as_str()))),
        Q::Fits(a, b) => {
            if ns.fits(&Symbol::from(a.as_str()), &Symbol::from(b.as_str())) {
                vec!["true".into()]
            } else {
                vec![]
            }
        }
        Q::Reflect(rec) => names(&ns.reflect(rec).defs),
        Q::Assoc(parent, assoc) => names(&ns.associations(&Symbol::from(parent.as_str()), &Symbol::from(assoc.as_str()))),
        Q::Rel(rec, rel, term) => {
            let r = ns.has_relationship(rec, &Symbol::from(rel.as_str()), &term.as_ref().map(|t| Symbol::from(t.as_str())), &None, &|_| None);
            if r {
                vec!["true".into()]
            } else {
                vec![]
            }
        }
    }
}

fn q_json(q: &Q) -> J {
    match q {
        Q::Sup(k) => json!({"q":"sup","k":cps(k)}),
        Q::AllSup(k) => json!({"q":"allsup","k":cps(k)}),
        Q::Inh(k) => json!({"q":"inh","k":cps(k)}),
        Q::Fits(a, b) => json!({"q":"fits","k":cps(a),"b":cps(b)}),
        Q::Reflect(r) => json!({"q":"reflect","rec":tags(r)}),
        Q::Assoc(p, a) => json!({"q":"assoc","k":cps(p),"b":cps(a)}),
        Q::Rel(r, rel, t) => json!({"q":"rel","rec":tags(r),"k":cps(rel),"b":cps(t.as_deref().unwrap_or(""))}),
    }
}

fn leak(grid: Grid) -> &'static Namespace<'static> {
    Box::leak(Box::new(Namespace::make(grid)))
}

/// give back a namespace made by `leak` once no thread can use it any more
fn unleak(ns: &'static Namespace<'static>) {
    unsafe { drop(Box::from_raw(ns as *const Namespace<'static> as *mut Namespace<'static>)) }
}

/// an owned answer computed on a cold namespace of its own, which is freed afterwards (thousands of rounds over the real
/// defs would otherwise keep tens of gigabytes of namespaces alive)
fn cold<R: 'static>(grid: &Grid, f: impl FnOnce(&'static Namespace<'static>) -> R) -> R {
    let ns = leak(grid.clone());
    let r = f(ns);
    unleak(ns);
    r
}

fn hook_events_json(evs: Vec<hooks::HookEvent>, queries: &[Vec<Q>]) -> Vec<J> {
    // query begin / end notes carry (thread, index) in key as "t:i"
    evs.into_iter()
        .map(|e| {
            let mut j = json!({"op":format!("ns.{}", e.op),"t":e.thread,"map":e.map,"key":cps(&e.key),"flag":e.flag,
                "value":e.value.iter().map(|s| cps(s)).collect::<Vec<J>>()});
            if e.op == "qbegin" || e.op == "qend" {
                let parts: Vec<usize> = e.key.split(':').filter_map(|x| x.parse().ok()).collect();
                if parts.len() == 2 {
                    j["query"] = q_json(&queries[parts[0]][parts[1]]);
                    j["key"] = json!([]);
                }
            }
            j
        })
        .collect()
}

/// one round: `threads` threads, each with its own query list, released together on a cold namespace.
/// Every answer is also computed alone on a second cold namespace (`solo`).
pub fn round(out: &mut Out, grid: &Grid, queries: Vec<Vec<Q>>, label: &str) {
    round_warm(out, grid, queries, label, &[])
}

/// like `round`, but the namespace has already answered the queries `warm` (unobserved, on one thread) when the threads start:
/// the capacity family - a history of thousands of distinct symbols in front of the observed queries
pub fn round_warm(out: &mut Out, grid: &Grid, queries: Vec<Vec<Q>>, label: &str, warm: &[Q]) {
    out.emit(load_event(grid));
    let ns = leak(grid.clone());
    hooks::set_enabled(false);
    for q in warm {
        let _ = guarded(|| answer(ns, q));
    }
    // answers alone, each on its own cold namespace
    hooks::set_enabled(false);
    let solo: Vec<Vec<Vec<String>>> = queries.iter().map(|qs| qs.iter().map(|q| cold(grid, |n| answer(n, q))).collect()).collect();
    let _ = hooks::take_events();
    hooks::set_enabled(true);
    let n = queries.len();
    let barrier = Arc::new(Barrier::new(n));
    let (tx, rx) = std::sync::mpsc::channel();
    for (t, qs) in queries.iter().cloned().enumerate() {
        let barrier = barrier.clone();
        let tx = tx.clone();
        let solo_t = solo[t].clone();
        std::thread::spawn(move || {
            hooks::set_thread_id(t as u64 + 1);
            barrier.wait();
            for (i, q) in qs.iter().enumerate() {
                hooks::note("qbegin", format!("{t}:{i}"), false, vec![]);
                let r = guarded(|| answer(ns, q));
                match r {
                    Ok(a) => hooks::note("qend", format!("{t}:{i}"), a == solo_t[i], a),
                    Err(p) => hooks::note("qpanic", format!("{t}:{i}"), false, vec![p]),
                }
            }
            let _ = tx.send(t);
        });
    }
    drop(tx);
    let mut done = 0;
    let deadline = std::time::Instant::now() + std::time::Duration::from_secs(20);
    while done < n {
        let left = deadline.saturating_duration_since(std::time::Instant::now());
        match rx.recv_timeout(left) {
            Ok(_) => done += 1,
            Err(_) => break,
        }
    }
    hooks::set_enabled(false);
    let evs = hooks::take_events();
    for j in hook_events_json(evs, &queries) {
        out.emit(j);
    }
    if done == n {
        // every thread has sent its last message after its last query: nobody holds `ns` any more
        unleak(ns);
    }
    out.emit(json!({"op":"ns.round","label":label,"threads":n,"finished":done,"outcome": if done == n { "ok" } else { "timeout" }}));
}

// ---- replay of model-checked interleavings (MC_NsReplay) ----
// Every real thread stops at the hook's gate before each cache touch / guard drop; the scheduler releases them one
// touch at a time in the order of the model's history and compares the touch the implementation is about to make
// (kind, map, key) with the model's.
mod sched {
    use std::collections::HashMap;
    use std::sync::{Condvar, Mutex};
    use std::time::{Duration, Instant};

    #[derive(Default)]
    pub struct State {
        pub waiting: HashMap<u64, (String, u64, String)>,
        pub arrivals: HashMap<u64, u64>,
        pub granted: Option<u64>,
        pub finished: HashMap<u64, bool>,
        pub free_run: bool,
    }
    pub static STATE: Mutex<Option<State>> = Mutex::new(None);
    pub static CV: Condvar = Condvar::new();

    pub fn gate(thread: u64, op: &'static str, map: u64, key: &str) {
        let mut g = STATE.lock().unwrap_or_else(|e| e.into_inner());
        match g.as_mut() {
            Some(st) if !st.free_run => {
                st.waiting.insert(thread, (op.to_string(), map, key.to_string()));
                *st.arrivals.entry(thread).or_insert(0) += 1;
            }
            _ => return,
        }
        CV.notify_all();
        loop {
            match g.as_mut() {
                Some(st) if !st.free_run && st.granted != Some(thread) => {}
                Some(st) => {
                    if st.granted == Some(thread) {
                        st.granted = None;
                    }
                    st.waiting.remove(&thread);
                    break;
                }
                None => break,
            }
            g = CV.wait(g).unwrap_or_else(|e| e.into_inner());
        }
        CV.notify_all();
    }

    pub fn finished(thread: u64) {
        let mut g = STATE.lock().unwrap_or_else(|e| e.into_inner());
        if let Some(st) = g.as_mut() {
            st.finished.insert(thread, true);
        }
        CV.notify_all();
    }

    /// waits until `pred` holds on the state or the time is up
    pub fn wait_for(limit: Duration, pred: impl Fn(&State) -> bool) -> bool {
        let deadline = Instant::now() + limit;
        let mut g = STATE.lock().unwrap_or_else(|e| e.into_inner());
        loop {
            if g.as_ref().map(&pred).unwrap_or(true) {
                return true;
            }
            let left = deadline.saturating_duration_since(Instant::now());
            if left.is_zero() {
                return false;
            }
            g = CV.wait_timeout(g, left).unwrap_or_else(|e| e.into_inner()).0;
        }
    }
}

static SHARD_TABLE: std::sync::Mutex<Vec<(String, usize)>> = std::sync::Mutex::new(Vec::new());
fn forced_shard(key: &str) -> Option<usize> {
    SHARD_TABLE.lock().ok()?.iter().find(|(k, _)| k == key).map(|(_, i)| *i)
}

/// the diamond graph of MC_NsCache / MC_NsReplay, `is` lists in the rank order the model iterates in
fn model_grid() -> Grid {
    let rows: Vec<(String, Vec<String>)> = vec![("a", vec!["b", "c"]), ("b", vec!["d"]), ("c", vec!["d", "r", "u"]), ("d", vec![]), ("r", vec![])]
        .into_iter()
        .map(|(d, is)| (d.to_string(), is.into_iter().map(|s| s.to_string()).collect()))
        .collect();
    grid_of(&rows, false)
}

pub fn replay(out: &mut Out, vec: &J) -> Result<(), String> {
    use std::time::Duration;
    let grid = model_grid();
    // programs, in thread-name order
    let progs = vec["progs"].as_object().ok_or("progs")?;
    let mut names: Vec<&String> = progs.keys().collect();
    names.sort();
    let queries: Vec<Vec<Q>> = names.iter().map(|n| progs[*n].as_array().ok_or("prog")?.iter().map(q_of).collect::<Result<Vec<Q>, String>>()).collect::<Result<_, _>>()?;
    let tid = |name: &str| names.iter().position(|n| n.as_str() == name).map(|i| i as u64 + 1);
    // forced shard assignment (model shards 1..N -> indices 0..N-1 of 4 real shards)
    {
        let mut t = SHARD_TABLE.lock().map_err(|_| "table")?;
        t.clear();
        for (k, v) in vec["shard"].as_object().ok_or("shard")? {
            t.push((k.clone(), v.as_u64().unwrap_or(1) as usize - 1));
        }
    }
    out.emit(load_event(&grid));
    hooks::set_enabled(false);
    hooks::set_gate(None);
    hooks::set_forced_shards(None);
    let solo: Vec<Vec<Vec<String>>> = queries.iter().map(|qs| qs.iter().map(|q| cold(&grid, |n| answer(n, q))).collect()).collect();
    hooks::set_forced_shards(Some((4, forced_shard)));
    let ns = leak(grid.clone());
    hooks::set_forced_shards(None);
    let _ = hooks::take_events();
    *sched::STATE.lock().unwrap_or_else(|e| e.into_inner()) = Some(sched::State::default());
    hooks::set_gate(Some(sched::gate));
    hooks::set_enabled(true);
    let n = queries.len();
    for (t, qs) in queries.iter().cloned().enumerate() {
        let solo_t = solo[t].clone();
        std::thread::spawn(move || {
            hooks::set_thread_id(t as u64 + 1);
            for (i, q) in qs.iter().enumerate() {
                hooks::note("qbegin", format!("{t}:{i}"), false, vec![]);
                match guarded(|| answer(ns, q)) {
                    Ok(a) => hooks::note("qend", format!("{t}:{i}"), a == solo_t[i], a),
                    Err(p) => hooks::note("qpanic", format!("{t}:{i}"), false, vec![p]),
                }
            }
            sched::finished(t as u64 + 1);
        });
    }
    let steps = vec["steps"].as_array().ok_or("steps")?;
    let limit = Duration::from_secs(5);
    let mut outcome = "ok".to_string();
    let mut detail = json!([]);
    let mut done = 0usize;
    let mut map_ids: std::collections::HashMap<String, u64> = std::collections::HashMap::new();
    for (i, st) in steps.iter().enumerate() {
        let t = tid(st["t"].as_str().unwrap_or("")).ok_or("step thread")?;
        // the thread must arrive at a gate (or finish, which is a mismatch)
        let arrived = sched::wait_for(limit, |s| s.waiting.contains_key(&t) || s.finished.contains_key(&t));
        let (at, fin) = {
            let g = sched::STATE.lock().unwrap_or_else(|e| e.into_inner());
            let s = g.as_ref().unwrap();
            (s.waiting.get(&t).cloned(), s.finished.contains_key(&t))
        };
        if !arrived {
            outcome = "stuck".into();
            detail = json!(["thread did not reach its next cache touch", i + 1, st]);
            break;
        }
        let Some((op, map, key)) = at else {
            outcome = if fin { "mismatch".into() } else { "stuck".into() };
            detail = json!(["thread finished its program, the model has another touch", i + 1, st]);
            break;
        };
        let want_map = st["map"].as_str().unwrap_or("").to_string();
        let known = map_ids.get(&want_map).copied();
        let map_ok = match known {
            Some(id) => id == map,
            None => !map_ids.values().any(|v| *v == map),
        };
        if op != st["kind"].as_str().unwrap_or("") || (op != "drop" && key != st["key"].as_str().unwrap_or("")) || !map_ok {
            outcome = "mismatch".into();
            detail = json!(["the implementation is about to make another cache touch than the model", i + 1, st, [op, map, key]]);
            break;
        }
        map_ids.entry(want_map).or_insert(map);
        let before = {
            let mut g = sched::STATE.lock().unwrap_or_else(|e| e.into_inner());
            let s = g.as_mut().unwrap();
            s.granted = Some(t);
            *s.arrivals.get(&t).unwrap_or(&0)
        };
        sched::CV.notify_all();
        // the touch is complete when the thread stands at its next gate or has finished
        let completed = sched::wait_for(limit, |s| s.finished.contains_key(&t) || *s.arrivals.get(&t).unwrap_or(&0) > before);
        if !completed {
            outcome = "stuck".into();
            detail = json!(["a cache touch the model has enabled did not complete (blocked on a lock?)", i + 1, st]);
            break;
        }
        done = i + 1;
    }
    if outcome == "ok" {
        // no touch may be left over
        let all = sched::wait_for(limit, |s| (1..=n as u64).all(|t| s.finished.contains_key(&t)) || !s.waiting.is_empty());
        let g = sched::STATE.lock().unwrap_or_else(|e| e.into_inner());
        let s = g.as_ref().unwrap();
        if !all || !s.waiting.is_empty() {
            outcome = "mismatch".into();
            detail = json!(["the implementation makes more cache touches than the model", steps.len(), s.waiting.values().next().map(|w| json!([w.0, w.1, w.2]))]);
        }
    }
    // let everything run out, then collect the log
    {
        let mut g = sched::STATE.lock().unwrap_or_else(|e| e.into_inner());
        if let Some(s) = g.as_mut() {
            s.free_run = true;
        }
    }
    sched::CV.notify_all();
    let finished_all = sched::wait_for(Duration::from_secs(10), |s| (1..=n as u64).all(|t| s.finished.contains_key(&t)));
    hooks::set_enabled(false);
    hooks::set_gate(None);
    *sched::STATE.lock().unwrap_or_else(|e| e.into_inner()) = None;
    let evs = hooks::take_events();
    for j in hook_events_json(evs, &queries) {
        out.emit(j);
    }
    out.emit(json!({"op":"ns.round","label":"replay","threads":n,"finished": if finished_all { n } else { 0 },"outcome": if finished_all { "ok" } else { "timeout" }}));
    out.emit(json!({"op":"ns.replay","steps":steps.len(),"done":done,"outcome":outcome,"detail":detail}));
    Ok(())
}

fn small_grid() -> Grid {
    // diamond a -> {b, c} -> d, undefined supertype u, a conjunct, an entity chain
    let rows: Vec<(String, Vec<String>)> = vec![
        ("a", vec!["b", "c"]),
        ("b", vec!["d"]),
        ("c", vec!["d", "r", "u"]),
        ("d", vec![]),
        ("r", vec![]),
        ("a-b", vec!["a"]),
        ("entity", vec![]),
        ("e", vec!["entity", "d"]),
    ]
    .into_iter()
    .map(|(d, is)| (d.to_string(), is.into_iter().map(|s| s.to_string()).collect()))
    .collect();
    // plus the association defs: two plain ones (tagOn, rel1) and their computed reciprocals (tags, rel1s), used by a c d e
    let mut dicts: Vec<Dict> = grid_of(&rows, false).rows.clone();
    let syms = |names: &[&str]| Value::make_list(names.iter().map(|n| Value::make_symbol(n)).collect());
    for d in dicts.iter_mut() {
        match d.get_symbol("def").map(|s| s.value.clone()).as_deref() {
            Some("a") => { d.insert("tagOn".into(), syms(&["d", "e"])); d.insert("rel1".into(), syms(&["r"])); }
            Some("c") => { d.insert("tagOn".into(), syms(&["b"])); d.insert("rel1".into(), syms(&["d", "undefX"])); }
            Some("e") => { d.insert("rel1".into(), syms(&["d"])); }
            _ => {}
        }
    }
    let mk = |name: &str, is: &[&str], extra: Vec<(&str, Value)>| -> Dict {
        let mut r = Dict::new();
        r.insert("def".into(), Value::make_symbol(name));
        r.insert("is".into(), syms(is));
        for (k, v) in extra {
            r.insert(k.into(), v);
        }
        r
    };
    dicts.push(mk("association", &[], vec![]));
    dicts.push(mk("tagOn", &["association"], vec![]));
    dicts.push(mk("tags", &["association"], vec![("computedFromReciprocal", Value::Marker), ("reciprocalOf", Value::make_symbol("tagOn"))]));
    dicts.push(mk("rel1", &["association"], vec![]));
    dicts.push(mk("rel1s", &["association"], vec![("computedFromReciprocal", Value::Marker), ("reciprocalOf", Value::make_symbol("rel1"))]));
    Grid::make_from_dicts(dicts)
}

fn random_query(rng: &mut Rng, syms: &[String]) -> Q {
    let s = |rng: &mut Rng| syms[rng.below(syms.len())].clone();
    match rng.below(10) {
        0 | 1 => Q::Sup(s(rng)),
        2 | 3 => Q::AllSup(s(rng)),
        4 | 5 => Q::Inh(s(rng)),
        6 | 7 => Q::Fits(s(rng), s(rng)),
        8 => {
            // records over few tag names, each tag a Marker or a plain value: two records with the same tag names but
            // another marker-ness reflect differently (a conjunct needs all its parts as markers)
            let mut rec = Dict::new();
            for _ in 0..(1 + rng.below(4)) {
                let k = s(rng);
                let val = |rng: &mut Rng| if rng.chance(2, 3) { Value::Marker } else { Value::make_str("x") };
                if k.contains('-') {
                    for p in k.split('-') {
                        let v = val(rng);
                        rec.insert(p.to_string(), v);
                    }
                } else if !k.contains(':') {
                    let v = val(rng);
                    rec.insert(k, v);
                }
            }
            Q::Reflect(rec)
        }
        _ => {
            let mut rec = Dict::new();
            rec.insert(s(rng).replace(['-', ':'], "x"), Value::make_ref("r1"));
            Q::Rel(rec, if rng.chance(1, 2) { "containedBy".into() } else { s(rng) }, if rng.chance(1, 2) { Some(s(rng)) } else { None })
        }
    }
}

pub fn rec(out: &mut Out, seed: u64, rounds: usize) -> Result<(), String> {
    let mut rng = Rng::new(seed);
    let small = small_grid();
    let small_syms: Vec<String> = ["a", "b", "c", "d", "r", "u", "a-b", "e", "entity", "zz"].iter().map(|s| s.to_string()).collect();
    let real = real_defs_grid()?;
    let mut real_syms: Vec<String> = real.rows.iter().filter_map(|r| r.get_symbol("def").map(|s| s.value.clone())).collect();
    real_syms.sort();
    let deep_r = deep_rows(64);
    let deep = grid_of(&deep_r, false);
    let mut deep_syms: Vec<String> = deep_r.iter().map(|r| r.0.clone()).collect();
    deep_syms.push("undef0".into());
    for r in 0..rounds {
        let threads = [2usize, 4, 8, 16][r % 4];
        let use_real = r % 5 == 4;
        let use_deep = r % 5 == 2;
        let (grid, syms) = if use_real { (&real, &real_syms) } else if use_deep { (&deep, &deep_syms) } else { (&small, &small_syms) };
        let per = if use_real { 3 } else { 1 + rng.below(4) };
        let mut queries: Vec<Vec<Q>> = (0..threads).map(|_| (0..per).map(|_| random_query(&mut rng, syms)).collect()).collect();
        if !use_real && !use_deep {
            // the conjunct a-b reflected from markers and from the same tag names with a plain value, in either order
            let mut m = Dict::new();
            m.insert("a".into(), Value::Marker);
            m.insert("b".into(), Value::Marker);
            let mut p = Dict::new();
            p.insert("a".into(), Value::make_str("x"));
            p.insert("b".into(), Value::Marker);
            let pair = if r % 2 == 0 { vec![Q::Reflect(m), Q::Reflect(p)] } else { vec![Q::Reflect(p), Q::Reflect(m)] };
            queries[0].extend(pair);
            // associations of one parent: plain and computed ones, two computed ones in either order
            let p = ["a", "b", "c", "d", "e", "r", "u"][rng.below(7)].to_string();
            let mut asks = vec![Q::Assoc(p.clone(), "tags".into()), Q::Assoc(p.clone(), "rel1s".into()), Q::Assoc(p.clone(), "tagOn".into()), Q::Assoc(p.clone(), "rel1".into())];
            if r % 2 == 1 {
                asks.swap(0, 1);
            }
            let t = queries.len() - 1;
            queries[t].extend(asks);
        }
        round(out, grid, queries, if use_real { "real" } else if use_deep { "deep" } else { "small" });
    }
    // the capacity family: the same kind of round after a long history of distinct symbols (defined and undefined), sizes
    // around the usual cache bounds (2^8 .. 2^16); every answer must still be the cold namespace's
    let sizes: &[usize] = if rounds <= 100 { &[300, 1100, 4200, 9000] } else { &[300, 1100, 4200, 9000, 17000, 33000, 66000, 140000] };
    for (i, n) in sizes.iter().enumerate() {
        let (grid, syms) = if i % 2 == 0 { (&small, &small_syms) } else { (&real, &real_syms) };
        let mut warm: Vec<Q> = Vec::new();
        for k in 0..*n {
            let name = format!("customTag{k}");
            warm.push(match k % 3 { 0 => Q::Fits(name, syms[k % syms.len()].clone()), 1 => Q::Inh(name), _ => Q::Sup(name) });
        }
        for s_ in syms.iter() {
            warm.push(Q::Inh(s_.clone()));
        }
        let mut queries: Vec<Vec<Q>> = (0..4).map(|_| (0..3).map(|_| random_query(&mut rng, syms)).collect()).collect();
        // the symbols a bounded cache is tempted to share a slot for: the empty name and names never asked before
        queries[0].push(Q::Inh(String::new()));
        queries[0].push(Q::Fits(String::new(), syms[0].clone()));
        queries[1].push(Q::Inh(format!("neverAsked{n}")));
        queries[1].push(Q::Inh(syms[0].clone()));
        queries[2].push(Q::Fits(syms[0].clone(), syms[syms.len() - 1].clone()));
        queries[3].push(Q::Sup(format!("customTag{}", n / 2)));
        round_warm(out, grid, queries, "capacity", &warm);
    }
    Ok(())
}

fn q_of(j: &J) -> Result<Q, String> {
    let a = j.as_array().ok_or("query")?;
    let kind = a[0].as_str().ok_or("kind")?;
    let s = |i: usize| a[i].as_str().map(|x| x.to_string()).ok_or("sym".to_string());
    Ok(match kind {
        "sup" => Q::Sup(s(1)?),
        "allsup" => Q::AllSup(s(1)?),
        "inh" => Q::Inh(s(1)?),
        "fits" => Q::Fits(s(1)?, s(2)?),
        _ => return Err(format!("unknown query {kind}")),
    })
}

pub fn run(vec: &J, out: &mut Out) -> Result<(), String> {
    let op = vec["op"].as_str().unwrap_or("");
    match op {
        "ns.history" => {
            // a sequential history enumerated by TLC over the model's diamond graph: [["inh","a"],["fits","a","d"],...]
            let grid = model_grid();
            let qs: Vec<Q> = vec["prog"].as_array().ok_or("prog")?.iter().map(q_of).collect::<Result<_, _>>()?;
            round(out, &grid, vec![qs], "history");
            Ok(())
        }
        "ns.replay" => replay(out, vec),
        "ns.threads" => {
            // replay of a recorded round is not deterministic in schedule; re-run the same query mix
            let _ = text_of(&json!([]));
            Err("ns.threads rounds are re-run through `hs rec ns`".into())
        }
        _ => Err(format!("unknown ns op {op}")),
    }
}

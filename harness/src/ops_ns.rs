//! Namespace cache operations (C14): sequential query histories and real threads on a cold namespace,
//! observed through the verif hook (every cache touch and guard drop, globally sequenced).
use crate::absval::{cps, tags, text_of};
use crate::ops_defs::{deep_rows, grid_of, load_event, real_defs_grid};
use crate::util::{guarded, Out, Rng};
use libhaystack::defs::namespace::{DefDict, Namespace};
use libhaystack::val::*;
use libhaystack::verif_hooks as hooks;
use serde_json::{json, Value as J};
use std::sync::{Arc, Barrier};

#[derive(Clone, Debug)]
pub enum Q {
    Sup(String),
    AllSup(String),
    Inh(String),
    Fits(String, String),
    Reflect(Dict),
    Rel(Dict, String, Option<String>),
}

fn sorted(mut v: Vec<String>) -> Vec<String> {
    v.sort();
    v.dedup();
    v
}

/// runs a query, returns its answer as a sorted name list (booleans as ["true"] / [])
pub fn answer(ns: &'static Namespace<'static>, q: &Q) -> Vec<String> {
    let names = |d: &[&Dict]| sorted(d.iter().map(|x| x.def_name().clone()).collect());
    match q {
        Q::Sup(k) => names(&ns.supertypes_of(&Symbol::from(k.as_str()))),
        Q::AllSup(k) => names(&ns.all_supertypes_of(&Symbol::from(k.as_str()))),
        Q::Inh(k) => names(&ns.inheritance(&Symbol::from(k.as_str()))),
        Q::Fits(a, b) => {
            if ns.fits(&Symbol::from(a.as_str()), &Symbol::from(b.as_str())) {
                vec!["true".into()]
            } else {
                vec![]
            }
        }
        Q::Reflect(rec) => names(&ns.reflect(rec).defs),
        Q::Rel(rec, rel, term) => {
            let r = ns.has_relationship(rec, &Symbol::from(rel.as_str()), &term.as_ref().map(|t| Symbol::from(t.as_str())), &None, &|_| None);
            if r {
                vec!["true".into()]
            } else {
                vec![]
            }
        }
    }
}

fn q_json(q: &Q) -> J {
    match q {
        Q::Sup(k) => json!({"q":"sup","k":cps(k)}),
        Q::AllSup(k) => json!({"q":"allsup","k":cps(k)}),
        Q::Inh(k) => json!({"q":"inh","k":cps(k)}),
        Q::Fits(a, b) => json!({"q":"fits","k":cps(a),"b":cps(b)}),
        Q::Reflect(r) => json!({"q":"reflect","rec":tags(r)}),
        Q::Rel(r, rel, t) => json!({"q":"rel","rec":tags(r),"k":cps(rel),"b":cps(t.as_deref().unwrap_or(""))}),
    }
}

fn leak(grid: Grid) -> &'static Namespace<'static> {
    Box::leak(Box::new(Namespace::make(grid)))
}

fn hook_events_json(evs: Vec<hooks::HookEvent>, queries: &[Vec<Q>]) -> Vec<J> {
    // query begin / end notes carry (thread, index) in key as "t:i"
    evs.into_iter()
        .map(|e| {
            let mut j = json!({"op":format!("ns.{}", e.op),"t":e.thread,"map":e.map,"key":cps(&e.key),"flag":e.flag,
                "value":e.value.iter().map(|s| cps(s)).collect::<Vec<J>>()});
            if e.op == "qbegin" || e.op == "qend" {
                let parts: Vec<usize> = e.key.split(':').filter_map(|x| x.parse().ok()).collect();
                if parts.len() == 2 {
                    j["query"] = q_json(&queries[parts[0]][parts[1]]);
                    j["key"] = json!([]);
                }
            }
            j
        })
        .collect()
}

/// one round: `threads` threads, each with its own query list, released together on a cold namespace.
/// Every answer is also computed alone on a second cold namespace (`solo`).
pub fn round(out: &mut Out, grid: &Grid, queries: Vec<Vec<Q>>, label: &str) {
    out.emit(load_event(grid));
    let ns = leak(grid.clone());
    let solo_ns = leak(grid.clone());
    // answers alone, each on its own cold namespace for the first query of every thread, sequentially otherwise
    hooks::set_enabled(false);
    let solo: Vec<Vec<Vec<String>>> = queries.iter().map(|qs| qs.iter().map(|q| answer(leak(grid.clone()), q)).collect()).collect();
    let _ = solo_ns;
    let _ = hooks::take_events();
    hooks::set_enabled(true);
    let n = queries.len();
    let barrier = Arc::new(Barrier::new(n));
    let (tx, rx) = std::sync::mpsc::channel();
    for (t, qs) in queries.iter().cloned().enumerate() {
        let barrier = barrier.clone();
        let tx = tx.clone();
        let solo_t = solo[t].clone();
        std::thread::spawn(move || {
            hooks::set_thread_id(t as u64 + 1);
            barrier.wait();
            for (i, q) in qs.iter().enumerate() {
                hooks::note("qbegin", format!("{t}:{i}"), false, vec![]);
                let r = guarded(|| answer(ns, q));
                match r {
                    Ok(a) => hooks::note("qend", format!("{t}:{i}"), a == solo_t[i], a),
                    Err(p) => hooks::note("qpanic", format!("{t}:{i}"), false, vec![p]),
                }
            }
            let _ = tx.send(t);
        });
    }
    drop(tx);
    let mut done = 0;
    let deadline = std::time::Instant::now() + std::time::Duration::from_secs(20);
    while done < n {
        let left = deadline.saturating_duration_since(std::time::Instant::now());
        match rx.recv_timeout(left) {
            Ok(_) => done += 1,
            Err(_) => break,
        }
    }
    hooks::set_enabled(false);
    let evs = hooks::take_events();
    for j in hook_events_json(evs, &queries) {
        out.emit(j);
    }
    out.emit(json!({"op":"ns.round","label":label,"threads":n,"finished":done,"outcome": if done == n { "ok" } else { "timeout" }}));
}

fn small_grid() -> Grid {
    // diamond a -> {b, c} -> d, undefined supertype u, a conjunct, an entity chain
    let rows: Vec<(String, Vec<String>)> = vec![
        ("a", vec!["b", "c"]),
        ("b", vec!["d"]),
        ("c", vec!["d", "u"]),
        ("d", vec![]),
        ("a-b", vec!["a"]),
        ("entity", vec![]),
        ("e", vec!["entity", "d"]),
    ]
    .into_iter()
    .map(|(d, is)| (d.to_string(), is.into_iter().map(|s| s.to_string()).collect()))
    .collect();
    grid_of(&rows, false)
}

fn random_query(rng: &mut Rng, syms: &[String]) -> Q {
    let s = |rng: &mut Rng| syms[rng.below(syms.len())].clone();
    match rng.below(10) {
        0 | 1 => Q::Sup(s(rng)),
        2 | 3 => Q::AllSup(s(rng)),
        4 | 5 => Q::Inh(s(rng)),
        6 | 7 => Q::Fits(s(rng), s(rng)),
        8 => {
            let mut rec = Dict::new();
            for _ in 0..(1 + rng.below(4)) {
                let k = s(rng);
                if k.contains('-') {
                    for p in k.split('-') {
                        rec.insert(p.to_string(), Value::Marker);
                    }
                } else if !k.contains(':') {
                    rec.insert(k, Value::Marker);
                }
            }
            Q::Reflect(rec)
        }
        _ => {
            let mut rec = Dict::new();
            rec.insert(s(rng).replace(['-', ':'], "x"), Value::make_ref("r1"));
            Q::Rel(rec, if rng.chance(1, 2) { "containedBy".into() } else { s(rng) }, if rng.chance(1, 2) { Some(s(rng)) } else { None })
        }
    }
}

pub fn rec(out: &mut Out, seed: u64, rounds: usize) -> Result<(), String> {
    let mut rng = Rng::new(seed);
    let small = small_grid();
    let small_syms: Vec<String> = ["a", "b", "c", "d", "u", "a-b", "e", "entity", "zz"].iter().map(|s| s.to_string()).collect();
    let real = real_defs_grid()?;
    let mut real_syms: Vec<String> = real.rows.iter().filter_map(|r| r.get_symbol("def").map(|s| s.value.clone())).collect();
    real_syms.sort();
    let deep_r = deep_rows(64);
    let deep = grid_of(&deep_r, false);
    let mut deep_syms: Vec<String> = deep_r.iter().map(|r| r.0.clone()).collect();
    deep_syms.push("undef0".into());
    for r in 0..rounds {
        let threads = [2usize, 4, 8, 16][r % 4];
        let use_real = r % 5 == 4;
        let use_deep = r % 5 == 2;
        let (grid, syms) = if use_real { (&real, &real_syms) } else if use_deep { (&deep, &deep_syms) } else { (&small, &small_syms) };
        let per = if use_real { 3 } else { 1 + rng.below(4) };
        let queries: Vec<Vec<Q>> = (0..threads).map(|_| (0..per).map(|_| random_query(&mut rng, syms)).collect()).collect();
        round(out, grid, queries, if use_real { "real" } else if use_deep { "deep" } else { "small" });
    }
    Ok(())
}

fn q_of(j: &J) -> Result<Q, String> {
    let a = j.as_array().ok_or("query")?;
    let kind = a[0].as_str().ok_or("kind")?;
    let s = |i: usize| a[i].as_str().map(|x| x.to_string()).ok_or("sym".to_string());
    Ok(match kind {
        "sup" => Q::Sup(s(1)?),
        "allsup" => Q::AllSup(s(1)?),
        "inh" => Q::Inh(s(1)?),
        "fits" => Q::Fits(s(1)?, s(2)?),
        _ => return Err(format!("unknown query {kind}")),
    })
}

pub fn run(vec: &J, out: &mut Out) -> Result<(), String> {
    let op = vec["op"].as_str().unwrap_or("");
    match op {
        "ns.history" => {
            // a sequential history enumerated by TLC over the model's diamond graph: [["inh","a"],["fits","a","d"],...]
            let rows: Vec<(String, Vec<String>)> = vec![("a", vec!["b", "c"]), ("b", vec!["d"]), ("c", vec!["d", "u"]), ("d", vec![])]
                .into_iter()
                .map(|(d, is)| (d.to_string(), is.into_iter().map(|s| s.to_string()).collect()))
                .collect();
            let grid = grid_of(&rows, false);
            let qs: Vec<Q> = vec["prog"].as_array().ok_or("prog")?.iter().map(q_of).collect::<Result<_, _>>()?;
            round(out, &grid, vec![qs], "history");
            Ok(())
        }
        "ns.threads" => {
            // replay of a recorded round is not deterministic in schedule; re-run the same query mix
            let _ = text_of(&json!([]));
            Err("ns.threads rounds are re-run through `hs rec ns`".into())
        }
        _ => Err(format!("unknown ns op {op}")),
    }
}

//! Filter operations (C07, C08, C09).
use serde_json::{json, Value as J};

pub fn worker_parse(_req: &J) -> J {
    json!({"outcome":"err","msg":"not implemented"})
}

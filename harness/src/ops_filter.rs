//! Filter operations (C07, C08, C09).
use crate::absval::{alpha, cps, gamma_tags, text_of};
use crate::util::{guarded, short, Out, Rng};
use crate::worker::Worker;
use libhaystack::defs::namespace::DEFAULT_NS;
use libhaystack::filter::eval::EvalContext;
use libhaystack::filter::nodes::*;
use libhaystack::filter::path::Path;
use libhaystack::filter::{Eval, Filter, Filtered, ListFiltered, PathResolver};
use libhaystack::val::*;
use serde_json::{json, Value as J};

fn path_json(p: &Path) -> J {
    J::Array(p.iter().map(|id| cps(&id.to_string())).collect())
}

fn term_json(t: &Term) -> J {
    match t {
        Term::Parens(p) => json!({"t":"parens","f":or_json(&p.or)}),
        Term::Has(h) => json!({"t":"has","path":path_json(&h.path)}),
        Term::Missing(m) => json!({"t":"missing","path":path_json(&m.path)}),
        Term::IsA(i) => json!({"t":"isa","sym":cps(&i.symbol.value)}),
        Term::WildcardEq(w) => json!({"t":"weq","path":path_json(&w.id),"ref":alpha(&Value::Ref(w.ref_value.clone()))}),
        Term::Relation(r) => json!({"t":"rel","rel":cps(&r.rel.value),
            "term": match &r.rel_term { Some(s) => json!([cps(&s.value)]), None => json!([]) },
            "ref": match &r.ref_value { Some(x) => json!([alpha(&Value::Ref(x.clone()))]), None => json!([]) }}),
        Term::Cmp(c) => {
            let op = match c.op {
                CmpOp::Eq => "==",
                CmpOp::NotEq => "!=",
                CmpOp::LessThan => "<",
                CmpOp::LessThanEq => "<=",
                CmpOp::GreatThan => ">",
                CmpOp::GreatThanEq => ">=",
            };
            json!({"t":"cmp","path":path_json(&c.path),"op":op,"val":alpha(&c.value)})
        }
    }
}

pub fn or_json(or: &Or) -> J {
    json!({"ors": or.ands.iter().map(|a| J::Array(a.terms.iter().map(term_json).collect())).collect::<Vec<J>>()})
}

fn no_tree() -> J {
    json!({"ors":[]})
}

/// executed in the worker: parse, print, re-parse
pub fn worker_parse(req: &J) -> J {
    let bytes: Vec<u8> = req["bytes"].as_array().map(|a| a.iter().map(|x| x.as_u64().unwrap_or(0) as u8).collect()).unwrap_or_default();
    let text = match String::from_utf8(bytes) {
        Ok(t) => t,
        Err(_) => return json!({"outcome":"err","msg":"not utf8","tree":no_tree(),"printed":[],"reparse":{"outcome":"skipped","tree":no_tree()}}),
    };
    match guarded(|| Filter::try_from(text.as_str())) {
        Ok(Ok(f)) => {
            let printed = guarded(|| f.to_string());
            let (pj, rp) = match &printed {
                Ok(s) => {
                    let s2 = s.clone();
                    let r = match guarded(|| Filter::try_from(s2.as_str())) {
                        Ok(Ok(f2)) => json!({"outcome":"ok","tree":or_json(&f2.or)}),
                        Ok(Err(e)) => json!({"outcome":"err","msg":short(&e.to_string()),"tree":no_tree()}),
                        Err(p) => json!({"outcome":"panic","msg":short(&p),"tree":no_tree()}),
                    };
                    (cps(s), r)
                }
                Err(_) => (json!([]), json!({"outcome":"panic","msg":"Display panicked","tree":no_tree()})),
            };
            json!({"outcome":"ok","msg":"","tree":or_json(&f.or),"printed":pj,"reparse":rp})
        }
        Ok(Err(e)) => json!({"outcome":"err","msg":short(&e.to_string()),"tree":no_tree(),"printed":[],"reparse":{"outcome":"skipped","tree":no_tree()}}),
        Err(p) => json!({"outcome":"panic","msg":short(&p),"tree":no_tree(),"printed":[],"reparse":{"outcome":"skipped","tree":no_tree()}}),
    }
}

/// a caller-supplied resolver over a small database of records; refs may form cycles
pub struct DbResolver {
    pub db: Vec<Dict>,
}

impl PathResolver for DbResolver {
    fn resolve_for(&self, root: &Dict, path: &Path) -> Value {
        // a->b: look b up in the dict, or in the record the Ref names
        let mut cur: Value = Value::Dict(root.clone());
        let mut hops = 0;
        for seg in path.iter() {
            let d = match &cur {
                Value::Dict(d) => d.clone(),
                Value::Ref(r) => match self.resolve_ref(r) {
                    Some(d) => d,
                    None => return Value::Null,
                },
                _ => return Value::Null,
            };
            hops += 1;
            if hops > 64 {
                return Value::Null;
            }
            cur = d.get(&seg.to_string()).cloned().unwrap_or(Value::Null);
            if cur.is_null() {
                break;
            }
        }
        cur
    }
    fn resolve(&self, _path: &Path) -> Value {
        Value::Null
    }
    fn resolve_ref(&self, reference: &Ref) -> Option<Dict> {
        self.db.iter().find(|d| d.get_ref("id").map(|r| r.value == reference.value).unwrap_or(false)).cloned()
    }
}

fn parse_via(wk: &mut Worker, text: &str) -> J {
    let b: Vec<J> = text.as_bytes().iter().map(|x| J::from(*x)).collect();
    match wk.call(&json!({"w":"filter.parse","bytes":b}), 3000) {
        Ok(j) => j,
        Err(f) => json!({"outcome":f,"msg":"","tree":no_tree(),"printed":[],"reparse":{"outcome":"skipped","tree":no_tree()}}),
    }
}

/// resolver over records addressed by a key of their own (they need not carry an `id` tag)
pub struct KeyedResolver {
    pub db: Vec<(String, Dict)>,
}

impl PathResolver for KeyedResolver {
    fn resolve_for(&self, _root: &Dict, _path: &Path) -> Value {
        Value::Null
    }
    fn resolve(&self, _path: &Path) -> Value {
        Value::Null
    }
    fn resolve_ref(&self, reference: &Ref) -> Option<Dict> {
        self.db.iter().find(|(k, _)| *k == reference.value).map(|(_, d)| d.clone())
    }
}

/// worker side of filter.rel: a relationship term evaluated with the Project Haystack defs and a caller-supplied resolver
pub fn worker_rel(req: &J) -> J {
    static REAL_NS: std::sync::OnceLock<Option<libhaystack::defs::namespace::Namespace<'static>>> = std::sync::OnceLock::new();
    let ns = REAL_NS.get_or_init(|| crate::ops_defs::real_defs_grid().ok().map(libhaystack::defs::namespace::Namespace::make));
    let Some(ns) = ns.as_ref() else { return json!({"outcome":"err","msg":"defs.zinc not readable"}) };
    let build = || -> Result<(Filter, Dict, Vec<(String, Dict)>), String> {
        let text = text_of(&req["text"])?;
        let rec = gamma_tags(&req["rec"])?;
        let mut db = Vec::new();
        for e in req["db"].as_array().ok_or("db")? {
            db.push((text_of(&e[0])?, gamma_tags(&e[1])?));
        }
        Ok((Filter::try_from(text.as_str()).map_err(|e| e.to_string())?, rec, db))
    };
    match build() {
        Err(m) => json!({"outcome":"err","msg":m}),
        Ok((f, rec, db)) => {
            let resolver = KeyedResolver { db };
            let r = guarded(|| {
                let ctx = EvalContext::make(&rec, ns, &resolver);
                f.eval(&ctx)
            });
            json!({"outcome":"ok","truth":truth(r)})
        }
    }
}

/// worker side of filter.weq
pub fn worker_weq(req: &J) -> J {
    let build = || -> Result<(Filter, Dict, Vec<Dict>), String> {
        let text = text_of(&req["text"])?;
        let rec = gamma_tags(&req["rec"])?;
        let db: Vec<Dict> = req["db"].as_array().ok_or("db")?.iter().map(gamma_tags).collect::<Result<_, _>>()?;
        let f = Filter::try_from(text.as_str()).map_err(|e| e.to_string())?;
        Ok((f, rec, db))
    };
    match build() {
        Err(m) => json!({"outcome":"err","msg":m}),
        Ok((f, rec, db)) => {
            let resolver = DbResolver { db };
            let r = guarded(|| {
                let ctx = EvalContext::make(&rec, &DEFAULT_NS, &resolver);
                f.eval(&ctx)
            });
            json!({"outcome":"ok","truth":truth(r)})
        }
    }
}

/// a resolver over a chain of n records that exist only as a rule: @nK is {id:@nK, a:@n(K+1), equipRef:@n(K+1), equip}; the last
/// record points at @target when `hit`, and carries no ref otherwise. No cycle, any length, no memory.
pub struct ChainResolver {
    pub n: usize,
    pub hit: bool,
}

impl PathResolver for ChainResolver {
    fn resolve_for(&self, root: &Dict, path: &Path) -> Value {
        // like DbResolver: a->b looks b up in the dict, or in the record the Ref names
        let mut cur: Value = Value::Dict(root.clone());
        for seg in path.iter() {
            let d = match &cur {
                Value::Dict(d) => d.clone(),
                Value::Ref(r) => match self.resolve_ref(r) {
                    Some(d) => d,
                    None => return Value::Null,
                },
                _ => return Value::Null,
            };
            cur = d.get(&seg.to_string()).cloned().unwrap_or(Value::Null);
            if cur.is_null() {
                break;
            }
        }
        cur
    }
    fn resolve(&self, _path: &Path) -> Value {
        Value::Null
    }
    fn resolve_ref(&self, reference: &Ref) -> Option<Dict> {
        let k: usize = reference.value.strip_prefix('n')?.parse().ok()?;
        if k >= self.n {
            return None;
        }
        let mut d = Dict::new();
        d.insert("id".into(), Value::make_ref(&format!("n{k}")));
        d.insert("equip".into(), Value::Marker);
        let next = if k + 1 < self.n { Some(format!("n{}", k + 1)) } else if self.hit { Some("target".to_string()) } else { None };
        match next {
            Some(r) => {
                d.insert("a".into(), Value::make_ref(&r));
                d.insert("equipRef".into(), Value::make_ref(&r));
            }
            None => {
                d.insert("a".into(), Value::make_str("end"));
            }
        }
        Some(d)
    }
}

/// worker side of filter.chain: `a *== @target` or `containedBy? @target` over a long chain of refs without a cycle
pub fn worker_chain(req: &J) -> J {
    let n = req["n"].as_u64().unwrap_or(1) as usize;
    let hit = req["hit"].as_bool().unwrap_or(false);
    let kind = req["kind"].as_str().unwrap_or("weq");
    let text = if kind == "weq" { "a *== @target" } else { "containedBy? @target" };
    let f = match Filter::try_from(text) {
        Ok(f) => f,
        Err(e) => return json!({"outcome":"err","msg":e.to_string()}),
    };
    let resolver = ChainResolver { n, hit };
    let mut rec = Dict::new();
    rec.insert("id".into(), Value::make_ref("start"));
    rec.insert("point".into(), Value::Marker);
    rec.insert("a".into(), Value::make_ref("n0"));
    rec.insert("equipRef".into(), Value::make_ref("n0"));
    static REAL_NS: std::sync::OnceLock<Option<libhaystack::defs::namespace::Namespace<'static>>> = std::sync::OnceLock::new();
    let ns = REAL_NS.get_or_init(|| crate::ops_defs::real_defs_grid().ok().map(libhaystack::defs::namespace::Namespace::make));
    let Some(ns) = ns.as_ref() else { return json!({"outcome":"err","msg":"defs.zinc not readable"}) };
    let r = guarded(|| {
        let ctx = EvalContext::make(&rec, ns, &resolver);
        f.eval(&ctx)
    });
    json!({"outcome":"ok","truth":truth(r)})
}

fn truth(r: Result<bool, String>) -> J {
    match r {
        Ok(b) => J::from(if b { "T" } else { "F" }),
        Err(_) => J::from("panic"),
    }
}

pub fn run(vec: &J, out: &mut Out, wk: &mut Worker) -> Result<(), String> {
    let op = vec["op"].as_str().unwrap_or("");
    match op {
        "filter.parse" => {
            let texts = vec["texts"].as_array().ok_or("texts")?;
            let mut seen = std::collections::HashSet::new();
            for t in texts {
                let text = text_of(t)?;
                if !seen.insert(text.clone()) {
                    continue;
                }
                let r = parse_via(wk, &text);
                out.emit(json!({"op":"filter.parse","f":vec["f"],"text":t,"outcome":r["outcome"],"msg":r["msg"],"tree":r["tree"],
                    "printed":r["printed"],"reparse":r["reparse"]}));
            }
            Ok(())
        }
        "filter.text" => {
            // arbitrary text (C09 / C08 REC): parse, print, re-parse
            let text = if vec.get("utf8").and_then(|b| b.as_bool()) == Some(false) { String::new() } else { text_of(&vec["text"])? };
            let r = parse_via(wk, &text);
            out.emit(json!({"op":"filter.text","text":vec["text"],"utf8":true,"src":vec["src"],"outcome":r["outcome"],"msg":r["msg"],"tree":r["tree"],
                "printed":r["printed"],"reparse":r["reparse"]}));
            Ok(())
        }
        "filter.eval" => {
            let text = text_of(&vec["text"])?;
            let rec = gamma_tags(&vec["rec"])?;
            let parsed = parse_via(wk, &text);
            let mut ev = json!({"op":"filter.eval","f":vec["f"],"text":vec["text"],"rec":vec["rec"],"outcome":parsed["outcome"],
                "msg":parsed["msg"],"tree":parsed["tree"],"dict_filter":"skipped","eval_ctx":"skipped"});
            if parsed["outcome"] == "ok" {
                if let Ok(f) = Filter::try_from(text.as_str()) {
                    ev["dict_filter"] = truth(guarded(|| rec.filter(&f)));
                    ev["eval_ctx"] = truth(guarded(|| {
                        let ctx = EvalContext::make(&rec, &DEFAULT_NS, &rec);
                        f.eval(&ctx)
                    }));
                }
            }
            out.emit(ev);
            Ok(())
        }
        "filter.grid" => {
            let text = text_of(&vec["text"])?;
            let rows: Vec<Dict> = vec["rows"].as_array().ok_or("rows")?.iter().map(gamma_tags).collect::<Result<_, _>>()?;
            let parsed = parse_via(wk, &text);
            let mut ev = json!({"op":"filter.grid","f":vec["f"],"text":vec["text"],"rows":vec["rows"],"outcome":parsed["outcome"],
                "tree":parsed["tree"],"first":-2,"all":[],"monitor":"skipped"});
            if parsed["outcome"] == "ok" {
                if let Ok(f) = Filter::try_from(text.as_str()) {
                    let grid = Grid::make_from_dicts(rows);
                    let r = guarded(|| {
                        let idx = |d: &Dict| grid.rows.iter().position(|r| std::ptr::eq(r, d)).map(|i| i as i64 + 1).unwrap_or(-1);
                        let first = grid.filter(&f).map(idx).unwrap_or(0);
                        let all: Vec<i64> = grid.filter_all(&f).into_iter().map(idx).collect();
                        (first, all)
                    });
                    match r {
                        Ok((first, all)) => {
                            ev["first"] = J::from(first);
                            ev["all"] = json!(all);
                            ev["monitor"] = J::from("ok");
                        }
                        Err(_) => ev["monitor"] = J::from("panic"),
                    }
                }
            }
            out.emit(ev);
            Ok(())
        }
        "filter.weq" => {
            // evaluation with a cyclic resolver must terminate: it runs in the worker process, which is killed when no
            // reply arrives in time (3 s, retried once alone with 15 s; after three such hangs in a run the limits
            // drop to 1 s / 5 s so that a tree that hangs on many databases is still reported in bounded time)
            static HANGS: std::sync::atomic::AtomicUsize = std::sync::atomic::AtomicUsize::new(0);
            let limit = if HANGS.load(std::sync::atomic::Ordering::Relaxed) >= 3 { 1000 } else { 3000 };
            let t = match wk.call(&json!({"w":"filter.weq","text":vec["text"],"rec":vec["rec"],"db":vec["db"]}), limit) {
                Ok(r) if r["outcome"] == "ok" => r["truth"].clone(),
                Ok(r) => return Err(format!("filter.weq vector not executable: {}", r["msg"])),
                Err(f) => {
                    HANGS.fetch_add(1, std::sync::atomic::Ordering::Relaxed);
                    J::from(f)
                }
            };
            out.emit(json!({"op":"filter.weq","rec":vec["rec"],"db":vec["db"],"path":vec["path"],"target":vec["target"],"text":vec["text"],"truth":t}));
            Ok(())
        }
        "filter.chain" => {
            let t = match wk.call(&json!({"w":"filter.chain","n":vec["n"],"hit":vec["hit"],"kind":vec["kind"]}), 20000) {
                Ok(r) if r["outcome"] == "ok" => r["truth"].clone(),
                Ok(r) => return Err(format!("filter.chain vector not executable: {}", r["msg"])),
                Err(f) => J::from(f),
            };
            out.emit(json!({"op":"filter.chain","n":vec["n"],"hit":vec["hit"],"kind":vec["kind"],"truth":t}));
            Ok(())
        }
        "filter.rel" => {
            static HANGS: std::sync::atomic::AtomicUsize = std::sync::atomic::AtomicUsize::new(0);
            let limit = if HANGS.load(std::sync::atomic::Ordering::Relaxed) >= 3 { 1000 } else { 3000 };
            let t = match wk.call(&json!({"w":"filter.rel","text":vec["text"],"rec":vec["rec"],"db":vec["db"]}), limit) {
                Ok(r) if r["outcome"] == "ok" => r["truth"].clone(),
                Ok(r) => return Err(format!("filter.rel vector not executable: {}", r["msg"])),
                Err(f) => {
                    HANGS.fetch_add(1, std::sync::atomic::Ordering::Relaxed);
                    J::from(f)
                }
            };
            out.emit(json!({"op":"filter.rel","rec":vec["rec"],"db":vec["db"],"text":vec["text"],"truth":t}));
            Ok(())
        }
        "filter.mutants" => {
            let text = text_of(&vec["text"])?;
            let full = vec["full"].as_bool().unwrap_or(false);
            let mut seen = std::collections::HashSet::new();
            for m in crate::ops_total::mutants(text.as_bytes(), FILTER_REPS, full) {
                if !seen.insert(m.clone()) {
                    continue;
                }
                out.emit(text_event(wk, &m, "mutant"));
            }
            Ok(())
        }
        _ => Err(format!("unknown filter op {op}")),
    }
}

pub const FILTER_REPS: &[u8] = b"a0Z\"`@^()=!<>*?- \n.:_\xc3T";

fn text_event(wk: &mut Worker, bytes: &[u8], src: &str) -> J {
    let b: Vec<J> = bytes.iter().map(|x| J::from(*x)).collect();
    let r = match wk.call(&json!({"w":"filter.parse","bytes":b}), 3000) {
        Ok(j) => j,
        Err(f) => json!({"outcome":f,"msg":"","tree":no_tree(),"printed":[],"reparse":{"outcome":"skipped","tree":no_tree()}}),
    };
    let (text, utf8) = match std::str::from_utf8(bytes) {
        Ok(t) => (cps(t), true),
        Err(_) => (J::Array(b), false),
    };
    json!({"op":"filter.text","text":text,"utf8":utf8,"src":src,"outcome":r["outcome"],"msg":r["msg"],"tree":r["tree"],
        "printed":r["printed"],"reparse":r["reparse"]})
}

/// REC: random bytes / token soups for the filter parser
pub fn rec_fuzz(out: &mut Out, seed: u64, n: usize) {
    let mut rng = Rng::new(seed);
    let mut wk = Worker::new();
    let toks: Vec<&str> = vec!["a", "b->c", "not", "and", "or", "(", ")", "==", "!=", "<", "<=", ">", ">=", "*==", "1", "-2.5kW", "\"x\"", "`u`",
        "@r", "@r \"d\"", "^s", "2021-01-01", "12:00:00", "2021-01-01T00:00:00Z", "2021-01-01T00:00:00-05:00 New_York", "true", "false", "rel?", "->", "-", "\"", "`", "^", "@", "?", "*", "=", "!", "é", "\\", "INF", "-INF", "NaN", "1e", "T", "a->"];
    for i in 0..n {
        let bytes: Vec<u8> = if i % 3 == 0 {
            (0..rng.below(16)).map(|_| if rng.chance(1, 4) { rng.below(256) as u8 } else { *rng.pick(FILTER_REPS) }).collect()
        } else {
            let mut s = String::new();
            for _ in 0..(1 + rng.below(8)) {
                let tk: &str = toks[rng.below(toks.len())];
                s.push_str(tk);
                if rng.chance(2, 3) {
                    s.push(' ');
                }
            }
            s.into_bytes()
        };
        out.emit(text_event(&mut wk, &bytes, "fuzz"));
    }
}

//! Totality / stability / streaming operations (C03, C09 share the watchdog; C10, C11).
//! Monitors that no specification can observe live here: panic (catch_unwind), non-termination (watchdog
//! thread), stack exhaustion / abort (child process exit status). Their outcome is logged; the trace spec judges.
use crate::absval::{alpha, cps, tags, text_of};
use crate::util::{guarded, short, Out, Rng};
use crate::worker::Worker;
use libhaystack::encoding::zinc;
use libhaystack::encoding::zinc::decode::parser::Parser;
use libhaystack::encoding::zinc::decode::parse_grid_iterator;
use libhaystack::val::*;
use serde_json::{json, Value as J};
use std::io::Read;
use std::time::Duration;

pub const LIMIT_MS: u64 = 3000;

fn outcome_of<T>(r: &Result<Result<T, String>, String>) -> (&'static str, String) {
    match r {
        Ok(Ok(_)) => ("ok", String::new()),
        Ok(Err(e)) => ("err", short(e)),
        Err(e) => ("panic", short(e)),
    }
}

/// a reader that follows a schedule: chunk sizes (0 = return Interrupted once), then 1-byte reads;
/// optional I/O error at a byte offset
pub struct ScheduledReader {
    pub data: Vec<u8>,
    pub pos: usize,
    pub schedule: Vec<usize>,
    pub step: usize,
    pub fail_at: Option<usize>,
    pub consumed_log: Vec<usize>,
}

impl Read for ScheduledReader {
    fn read(&mut self, buf: &mut [u8]) -> std::io::Result<usize> {
        if let Some(f) = self.fail_at {
            if self.pos >= f {
                return Err(std::io::Error::new(std::io::ErrorKind::Other, "injected I/O error"));
            }
        }
        let want = if self.step < self.schedule.len() { self.schedule[self.step] } else { 1 };
        self.step += 1;
        if want == 0 {
            return Err(std::io::Error::new(std::io::ErrorKind::Interrupted, "interrupted"));
        }
        let mut n = want.min(buf.len()).min(self.data.len() - self.pos);
        if let Some(f) = self.fail_at {
            n = n.min(f - self.pos);
        }
        buf[..n].copy_from_slice(&self.data[self.pos..self.pos + n]);
        self.pos += n;
        Ok(n)
    }
}

fn decode_reader(bytes: Vec<u8>, schedule: Vec<usize>, fail_at: Option<usize>) -> Result<Value, String> {
    let mut rd = ScheduledReader { data: bytes, pos: 0, schedule, step: 0, fail_at, consumed_log: vec![] };
    let mut p = Parser::make(&mut rd).map_err(|e| e.to_string())?;
    p.parse_value().map_err(|e| e.to_string())
}

/// drains the lazy row iterator; returns rows and bytes consumed when each row was yielded
fn iterate(bytes: Vec<u8>, schedule: Vec<usize>, fail_at: Option<usize>) -> Result<(Vec<Dict>, Vec<usize>), String> {
    let mut rd = ScheduledReader { data: bytes, pos: 0, schedule, step: 0, fail_at, consumed_log: vec![] };
    let rd_ptr: *const ScheduledReader = &rd;
    let mut p = Parser::make(&mut rd).map_err(|e| e.to_string())?;
    let it = parse_grid_iterator(&mut p).map_err(|e| e.to_string())?;
    let mut rows = Vec::new();
    let mut consumed = Vec::new();
    for r in it {
        let row = r.map_err(|e| e.to_string())?;
        // SAFETY: only reads the position counter of the reader the parser borrows; single-threaded
        consumed.push(unsafe { (*rd_ptr).pos });
        rows.push(row);
        if rows.len() > 1_000_000 {
            return Err("row iterator does not stop".into());
        }
    }
    Ok((rows, consumed))
}

/// like `iterate`, but keeps the rows handed out before an error: (rows, bytes consumed at each hand-out, error)
fn iterate_partial(bytes: Vec<u8>, schedule: Vec<usize>, fail_at: Option<usize>) -> (Vec<Dict>, Vec<usize>, Option<String>) {
    let mut rd = ScheduledReader { data: bytes, pos: 0, schedule, step: 0, fail_at, consumed_log: vec![] };
    let rd_ptr: *const ScheduledReader = &rd;
    let mut rows = Vec::new();
    let mut consumed = Vec::new();
    let mut p = match Parser::make(&mut rd) {
        Ok(p) => p,
        Err(e) => return (rows, consumed, Some(e.to_string())),
    };
    let it = match parse_grid_iterator(&mut p) {
        Ok(it) => it,
        Err(e) => return (rows, consumed, Some(e.to_string())),
    };
    for r in it {
        match r {
            Ok(row) => {
                // SAFETY: only reads the position counter of the reader the parser borrows; single-threaded
                consumed.push(unsafe { (*rd_ptr).pos });
                rows.push(row);
            }
            Err(e) => return (rows, consumed, Some(e.to_string())),
        }
        if rows.len() > 1_000_000 {
            return (rows, consumed, Some("row iterator does not stop".into()));
        }
    }
    (rows, consumed, None)
}

fn val_json(r: &Result<Result<Value, String>, String>) -> J {
    let (o, m) = outcome_of(r);
    let back = match r {
        Ok(Ok(v)) => alpha(v),
        _ => json!({"k":"null"}),
    };
    json!({"outcome":o,"back":back,"msg":m})
}

fn bytes_json(b: &[u8]) -> J {
    J::Array(b.iter().map(|x| J::from(*x)).collect())
}

fn bytes_from(j: &J) -> Vec<u8> {
    j.as_array().map(|a| a.iter().map(|x| x.as_u64().unwrap_or(0) as u8).collect()).unwrap_or_default()
}

fn sched_from(j: &J) -> (Vec<usize>, Option<usize>) {
    let schedule = j["schedule"].as_array().map(|a| a.iter().map(|x| x.as_u64().unwrap_or(1) as usize).collect()).unwrap_or_default();
    let fail_at = j["fail_at"].as_i64().and_then(|x| if x < 0 { None } else { Some(x as usize) });
    (schedule, fail_at)
}

/// executed inside the worker process: one call into libhaystack per request
pub fn worker_handle(req: &J) -> J {
    let w = req["w"].as_str().unwrap_or("");
    let bytes = bytes_from(&req["bytes"]);
    let as_text = || String::from_utf8(bytes.clone()).map_err(|e| e.to_string());
    let decode = |fmt: &str| -> Result<Value, String> {
        match fmt {
            "json" => serde_json::from_slice::<Value>(&bytes).map_err(|e| e.to_string()),
            _ => match std::str::from_utf8(&bytes) {
                Ok(t) => zinc::decode::from_str(t).map_err(|e| e.to_string()),
                Err(_) => decode_reader(bytes.clone(), vec![], None),
            },
        }
    };
    match w {
        "zinc.from_str" => val_json(&guarded(|| zinc::decode::from_str(&as_text()?).map_err(|e| e.to_string()))),
        "zinc.parser" => {
            let (s, f) = sched_from(req);
            val_json(&guarded(|| decode_reader(bytes.clone(), s, f)))
        }
        "zinc.iter" => {
            let (s, f) = sched_from(req);
            let r = guarded(|| iterate(bytes.clone(), s, f));
            let (o, m) = outcome_of(&r);
            match &r {
                Ok(Ok((rows, consumed))) => json!({"outcome":o,"msg":m,"rows":rows.iter().map(tags).collect::<Vec<J>>(),"consumed":consumed}),
                _ => json!({"outcome":o,"msg":m,"rows":[],"consumed":[]}),
            }
        }
        "zinc.iter.partial" => {
            let (s, f) = sched_from(req);
            match guarded(|| -> Result<_, String> { Ok(iterate_partial(bytes.clone(), s, f)) }) {
                Ok(Ok((rows, consumed, err))) => json!({"outcome": if err.is_none() { "ok" } else { "err" }, "msg": crate::util::short(&err.unwrap_or_default()),
                                                        "rows": rows.iter().map(tags).collect::<Vec<J>>(), "consumed": consumed}),
                Ok(Err(m)) => json!({"outcome":"err","msg":m,"rows":[],"consumed":[]}),
                Err(p) => json!({"outcome":"panic","msg":crate::util::short(&p),"rows":[],"consumed":[]}),
            }
        }
        "json.from_slice" => val_json(&guarded(|| serde_json::from_slice::<Value>(&bytes).map_err(|e| e.to_string()))),
        "json.from_str" => val_json(&guarded(|| serde_json::from_str::<Value>(&as_text()?).map_err(|e| e.to_string()))),
        "reenc.zinc" | "reenc.json" | "reenc.display" => {
            let fmt = req["fmt"].as_str().unwrap_or("zinc");
            let v = match guarded(|| decode(fmt)) {
                Ok(Ok(v)) => v,
                _ => return json!({"outcome":"skipped","back":{"k":"null"},"msg":"first decode failed"}),
            };
            let r = guarded(|| -> Result<Value, String> {
                match w {
                    "reenc.zinc" => {
                        let t = zinc::encode::to_zinc_string(&v).map_err(|e| format!("ENC {e}"))?;
                        zinc::decode::from_str(&t).map_err(|e| e.to_string())
                    }
                    "reenc.json" => {
                        let t = serde_json::to_string(&v).map_err(|e| format!("ENC {e}"))?;
                        serde_json::from_str::<Value>(&t).map_err(|e| e.to_string())
                    }
                    _ => {
                        let _ = format!("{}", v);
                        if let Value::Dict(d) = &v {
                            let _ = d.dis().to_string();
                        }
                        Ok(Value::Null)
                    }
                }
            });
            let mut x = val_json(&r);
            if let Ok(Err(e)) = &r {
                if e.starts_with("ENC ") {
                    x["outcome"] = J::from("encerr");
                }
            }
            x
        }
        "filter.parse" => crate::ops_filter::worker_parse(req),
        "filter.weq" => crate::ops_filter::worker_weq(req),
        "filter.rel" => crate::ops_filter::worker_rel(req),
        "filter.chain" => crate::ops_filter::worker_chain(req),
        "capi.begin" | "capi.call" | "capi.end" | "capi.live" | "capi.nullcall" | "capi.selftest" => crate::ops_capi::worker_capi(req),
        _ => json!({"outcome":"err","back":{"k":"null"},"msg":"unknown worker request"}),
    }
}

fn skipped() -> J {
    json!({"outcome":"skipped","back":{"k":"null"},"msg":""})
}

fn reencode(wk: &mut Worker, bytes: &[u8], fmt: &str) -> J {
    let b = bytes_json(bytes);
    let z = wk.call_or(&json!({"w":"reenc.zinc","fmt":fmt,"bytes":b}), LIMIT_MS);
    let j = wk.call_or(&json!({"w":"reenc.json","fmt":fmt,"bytes":b}), LIMIT_MS);
    let d = wk.call_or(&json!({"w":"reenc.display","fmt":fmt,"bytes":b}), LIMIT_MS);
    json!({"zinc":z,"json":j,"display":d["outcome"]})
}

pub fn dec_zinc_event(wk: &mut Worker, bytes: &[u8], src: &str) -> J {
    let b = bytes_json(bytes);
    let text = std::str::from_utf8(bytes).ok();
    let parser = wk.call_or(&json!({"w":"zinc.parser","bytes":b}), LIMIT_MS);
    let iter = wk.call_or(&json!({"w":"zinc.iter","bytes":b}), LIMIT_MS);
    let mut ev = json!({"op":"dec.zinc","src":src,"parser":parser,
        "iter":{"outcome":iter["outcome"],"msg":iter["msg"],"rows":iter["rows"]}});
    let main_ok;
    match text {
        Some(t) => {
            ev["text"] = cps(t);
            ev["utf8"] = J::from(true);
            let f = wk.call_or(&json!({"w":"zinc.from_str","bytes":b}), LIMIT_MS);
            main_ok = f["outcome"] == "ok";
            ev["from_str"] = f;
        }
        None => {
            ev["text"] = b.clone();
            ev["utf8"] = J::from(false);
            ev["from_str"] = skipped();
            main_ok = ev["parser"]["outcome"] == "ok";
        }
    }
    ev["reenc"] = if main_ok { reencode(wk, bytes, "zinc") } else { json!({"zinc":skipped(),"json":skipped(),"display":"skipped"}) };
    ev
}

pub fn dec_json_event(wk: &mut Worker, bytes: &[u8], src: &str) -> J {
    let b = bytes_json(bytes);
    let r = wk.call_or(&json!({"w":"json.from_slice","bytes":b}), LIMIT_MS);
    let ok = r["outcome"] == "ok";
    let mut ev = json!({"op":"dec.json","src":src,"from_slice":r});
    match std::str::from_utf8(bytes) {
        Ok(t) => {
            ev["text"] = cps(t);
            ev["utf8"] = J::from(true);
            ev["tree"] = crate::jtree::parse(t).unwrap_or(json!({"j":"none"}));
            ev["from_str"] = wk.call_or(&json!({"w":"json.from_str","bytes":b}), LIMIT_MS);
        }
        Err(_) => {
            ev["text"] = b.clone();
            ev["utf8"] = J::from(false);
            ev["tree"] = json!({"j":"none"});
            ev["from_str"] = skipped();
        }
    }
    ev["reenc"] = if ok { reencode(wk, bytes, "json") } else { json!({"zinc":skipped(),"json":skipped(),"display":"skipped"}) };
    ev
}

/// every prefix and single edit of a document
pub fn mutants(doc: &[u8], reps: &[u8], full: bool) -> Vec<Vec<u8>> {
    let mut out = Vec::new();
    for i in 0..doc.len() {
        out.push(doc[..i].to_vec()); // prefix
        let mut d = doc.to_vec();
        d.remove(i);
        out.push(d); // delete
        let mut d = doc.to_vec();
        d.insert(i, doc[i]);
        out.push(d); // duplicate
        for (k, r) in reps.iter().enumerate() {
            if !full && (i + k) % 4 != 0 {
                continue;
            }
            if *r != doc[i] {
                let mut d = doc.to_vec();
                d[i] = *r;
                out.push(d); // replace
            }
            let mut d = doc.to_vec();
            d.insert(i, *r);
            out.push(d); // insert
        }
    }
    out
}

pub const ZINC_REPS: &[u8] = b"0aZ\"`\\@^,:-. \n\r[]{}<>()T\xc3_/%$NeE+u";
pub const JSON_REPS: &[u8] = b"0a\"\\,:-. \n[]{}tn_eE+\xc3u";

pub fn run(vec: &J, out: &mut Out, wk: &mut Worker) -> Result<(), String> {
    let op = vec["op"].as_str().unwrap_or("");
    let bytes_of = |v: &J| -> Result<Vec<u8>, String> {
        if v.get("utf8").and_then(|b| b.as_bool()) == Some(false) {
            Ok(v["text"].as_array().ok_or("text")?.iter().map(|b| b.as_u64().unwrap_or(0) as u8).collect())
        } else {
            Ok(text_of(&v["text"])?.into_bytes())
        }
    };
    match op {
        "dec.zinc" => {
            let b = bytes_of(vec)?;
            out.emit(dec_zinc_event(wk, &b, vec["src"].as_str().unwrap_or("vector")));
            Ok(())
        }
        "dec.json" => {
            let b = bytes_of(vec)?;
            out.emit(dec_json_event(wk, &b, vec["src"].as_str().unwrap_or("vector")));
            Ok(())
        }
        "dec.json.tree" => {
            let mut t = String::new();
            crate::jtree::print(&vec["tree"], &mut t);
            out.emit(dec_json_event(wk, t.as_bytes(), vec["src"].as_str().unwrap_or("vector")));
            Ok(())
        }
        "dec.json.tree.mutants" => {
            let mut t = String::new();
            crate::jtree::print(&vec["tree"], &mut t);
            let full = vec["full"].as_bool().unwrap_or(false);
            let mut seen = std::collections::HashSet::new();
            for m in mutants(t.as_bytes(), JSON_REPS, full) {
                if seen.insert(m.clone()) {
                    out.emit(dec_json_event(wk, &m, "mutant"));
                }
            }
            Ok(())
        }
        "dec.sched.all" => {
            // every way of splitting a short text into chunks (length <= 10), the two extreme schedules,
            // and an I/O error at every offset
            let bytes = text_of(&vec["text"])?.into_bytes();
            let n = bytes.len();
            let mut scheds: Vec<(Vec<usize>, i64)> = vec![(vec![1; n + 2], -1), ((0..2 * n + 4).map(|i| if i % 2 == 0 { 0 } else { 1 }).collect(), -1), (vec![n.max(1) + 7], -1)];
            if n >= 2 && n <= 10 {
                for mask in 0..(1u32 << (n - 1)) {
                    let mut s = Vec::new();
                    let mut run = 1;
                    for i in 0..n - 1 {
                        if mask & (1 << i) != 0 {
                            s.push(run);
                            run = 1;
                        } else {
                            run += 1;
                        }
                    }
                    s.push(run);
                    scheds.push((s, -1));
                }
            } else {
                scheds.push((vec![2, 3, 0, 5, 1, 0, 0, 7, 64, 1, 2, 4096], -1));
                scheds.push((vec![3, 0, 1, 1, 8, 0, 2, 16, 1, 1, 1, 100000], -1));
            }
            let step = if n > 64 { n / 32 } else { 1 };
            let mut o = 0;
            while o <= n {
                scheds.push((vec![], o as i64));
                scheds.push((vec![2, 0, 3], o as i64));
                o += step;
            }
            for (s, f) in scheds {
                let v = json!({"op":"dec.sched","text":vec["text"],"schedule":s,"fail_at":f});
                out.emit(sched_event(wk, &v)?);
            }
            Ok(())
        }
        "dec.sched.big" => {
            // a grid too large for any plausible read-ahead buffer: laziness must be visible in the bytes consumed
            let rows = vec["rows"].as_u64().unwrap_or(300) as usize;
            let mut rng = Rng::new(vec["seed"].as_u64().unwrap_or(1));
            let mut t = String::from("ver:\"3.0\" big\nid,dis,val,ts\n");
            for i in 0..rows {
                t.push_str(&format!("@p:{:x} \"Point {}\",\"{}\",{}kW,2021-03-14T0{}:30:00-04:00 New_York\n", rng.next() % 0xffffff, i,
                    "x".repeat(rng.below(30)), (rng.next() % 100000) as f64 / 10.0, rng.below(9)));
            }
            let text = cps(&t);
            for s in [vec![1usize; 8], vec![8192; 64], vec![3, 0, 5, 0, 0, 64, 1, 700, 2, 0, 4096, 1, 1, 1, 9000], vec![100000]] {
                let v = json!({"op":"dec.sched","text":text,"schedule":s,"fail_at":-1});
                out.emit(sched_event(wk, &v)?);
            }
            Ok(())
        }
        "stab.file" => {
            stab_file(out, vec["path"].as_str().ok_or("path")?, vec["fmt"].as_str().unwrap_or("zinc"))
        }
        "dec.zinc.mutants" => {
            let b = bytes_of(vec)?;
            let full = vec["full"].as_bool().unwrap_or(false);
            let mut seen = std::collections::HashSet::new();
            for m in mutants(&b, ZINC_REPS, full) {
                if seen.insert(m.clone()) {
                    out.emit(dec_zinc_event(wk, &m, "mutant"));
                }
            }
            Ok(())
        }
        "dec.json.mutants" => {
            let b = bytes_of(vec)?;
            let full = vec["full"].as_bool().unwrap_or(false);
            let mut seen = std::collections::HashSet::new();
            for m in mutants(&b, JSON_REPS, full) {
                if seen.insert(m.clone()) {
                    out.emit(dec_json_event(wk, &m, "mutant"));
                }
            }
            Ok(())
        }
        "dec.bomb" => {
            out.emit(bomb_event(vec)?);
            Ok(())
        }
        "dec.sched" => {
            out.emit(sched_event(wk, vec)?);
            Ok(())
        }
        "dec.stream" => {
            // a terminal state of MC_ZincStream: the grid body is put behind a four-column header and pulled through the
            // real lazy iterator under four reader schedules (and the model's failure offset)
            let body = bytes_from(&vec["body"]);
            let header = b"ver:\"3.0\"\na,b,c,d\n";
            let mut text = header.to_vec();
            text.extend_from_slice(&body);
            let n = text.len();
            let fail = vec["fail_at"].as_i64().unwrap_or(-1);
            let fail_abs = if fail < 0 { -1 } else { fail + header.len() as i64 };
            let scheds: Vec<(&str, Vec<usize>)> = vec![
                ("bytes", vec![1; n + 2]),
                ("interrupted", (0..3 * n + 6).map(|i| if i % 3 == 2 { 1 } else { 0 }).collect()),
                ("pairs", vec![2; n + 2]),
                ("whole", vec![n + 7]),
            ];
            let mut runs = Vec::new();
            for (name, s) in scheds {
                let r = wk.call_or(&json!({"w":"zinc.iter.partial","bytes":bytes_json(&text),"schedule":s,"fail_at":fail_abs}), LIMIT_MS);
                runs.push(json!({"schedule":name,"outcome":r["outcome"],"msg":r["msg"],"rows":r["rows"],"consumed":r["consumed"]}));
            }
            out.emit(json!({"op":"dec.stream","body":vec["body"],"fail_at":fail,"hdr":header.len(),"merr":vec["merr"],"mrows":vec["mrows"],
                            "myield":vec["myield"],"mref":vec["mref"],"runs":runs}));
            Ok(())
        }
        _ => Err(format!("unknown op {op}")),
    }
}

/// nesting bomb {fmt, open, mid, close, n} executed in a child process: a stack overflow is an exit status
pub fn bomb_event(vec: &J) -> Result<J, String> {
    let exe = std::env::current_exe().map_err(|e| e.to_string())?;
    let spec = serde_json::to_string(vec).unwrap();
    let mut child = std::process::Command::new(exe)
        .arg("bomb-child")
        .arg(&spec)
        .stdout(std::process::Stdio::piped())
        .stderr(std::process::Stdio::null())
        .spawn()
        .map_err(|e| e.to_string())?;
    let start = std::time::Instant::now();
    let outcome;
    loop {
        match child.try_wait().map_err(|e| e.to_string())? {
            Some(st) => {
                let mut s = String::new();
                if let Some(mut o) = child.stdout.take() {
                    let _ = o.read_to_string(&mut s);
                }
                outcome = if st.success() { s.trim().to_string() } else { "abort".to_string() };
                break;
            }
            None => {
                if start.elapsed() > Duration::from_secs(60) {
                    let _ = child.kill();
                    let _ = child.wait();
                    outcome = "timeout".to_string();
                    break;
                }
                std::thread::sleep(Duration::from_millis(5));
            }
        }
    }
    Ok(json!({"op":"dec.bomb","fmt":vec["fmt"],"open":vec["open"],"mid":vec["mid"],"close":vec["close"],"n":vec["n"],"outcome":outcome}))
}

pub fn bomb_text(vec: &J) -> String {
    let n = vec["n"].as_u64().unwrap_or(1) as usize;
    let open = vec["open"].as_str().unwrap_or("");
    let mid = vec["mid"].as_str().unwrap_or("");
    let close = vec["close"].as_str().unwrap_or("");
    let mut s = String::with_capacity(n * (open.len() + close.len()) + mid.len());
    for _ in 0..n {
        s.push_str(open);
    }
    s.push_str(mid);
    for _ in 0..n {
        s.push_str(close);
    }
    s
}

/// body of the child process
pub fn bomb_child(spec: &str) {
    let vec: J = serde_json::from_str(spec).expect("spec");
    let text = bomb_text(&vec);
    let fmt = vec["fmt"].as_str().unwrap_or("zinc");
    let r: Result<&'static str, String> = guarded(|| match fmt {
        "zinc" => {
            let r = zinc::decode::from_str(&text);
            let o = if r.is_ok() { "ok" } else { "err" };
            // dropping a deep value recurses too: that is part of returning a value
            drop(r);
            o
        }
        "json" => {
            let r = serde_json::from_str::<Value>(&text);
            let o = if r.is_ok() { "ok" } else { "err" };
            drop(r);
            o
        }
        "filter" => {
            let r = libhaystack::filter::Filter::try_from(text.as_str());
            let o = if r.is_ok() { "ok" } else { "err" };
            drop(r);
            o
        }
        _ => "err",
    });
    match r {
        Ok(o) => println!("{o}"),
        Err(_) => println!("panic"),
    }
}

/// stream decoding under a reader schedule {text, schedule:[chunk sizes, 0 = Interrupted], fail_at: -1 | offset}
pub fn sched_event(wk: &mut Worker, vec: &J) -> Result<J, String> {
    let bytes = text_of(&vec["text"])?.into_bytes();
    let b = bytes_json(&bytes);
    let base = wk.call_or(&json!({"w":"zinc.parser","bytes":b,"schedule":[],"fail_at":-1}), LIMIT_MS);
    let got = wk.call_or(&json!({"w":"zinc.parser","bytes":b,"schedule":vec["schedule"],"fail_at":vec["fail_at"]}), LIMIT_MS);
    let base_rows = wk.call_or(&json!({"w":"zinc.iter","bytes":b,"schedule":[],"fail_at":-1}), LIMIT_MS);
    let rows = wk.call_or(&json!({"w":"zinc.iter","bytes":b,"schedule":vec["schedule"],"fail_at":vec["fail_at"]}), LIMIT_MS);
    Ok(json!({"op":"dec.sched","text":vec["text"],"schedule":vec["schedule"],"fail_at":vec["fail_at"],"len":bytes.len(),"ascii":bytes.is_ascii(),
        "base":base,"got":got,"base_rows":base_rows,"rows":rows}))
}

/// REC: byte-level fuzz and token splices from the repository corpora
pub fn rec_fuzz(out: &mut Out, seed: u64, n: usize) {
    let mut wk = Worker::new();
    let wk = &mut wk;
    let mut rng = Rng::new(seed);
    let zc = std::fs::read("/repo/benches/zinc/points.zinc").unwrap_or_default();
    let dc = std::fs::read("/repo/tests/defs/defs.zinc").unwrap_or_default();
    let jc = std::fs::read("/repo/benches/json/points.json").unwrap_or_default();
    let piece = |rng: &mut Rng, c: &[u8], max: usize| -> Vec<u8> {
        if c.is_empty() {
            return vec![];
        }
        let st = rng.below(c.len());
        let len = 1 + rng.below(max);
        c[st..(st + len).min(c.len())].to_vec()
    };
    for i in 0..n {
        match i % 6 {
            0 => {
                // random bytes
                let len = rng.below(24);
                let b: Vec<u8> = (0..len).map(|_| if rng.chance(1, 3) { rng.below(256) as u8 } else { *rng.pick(ZINC_REPS) }).collect();
                out.emit(dec_zinc_event(wk, &b, "random"));
            }
            1 => {
                let len = rng.below(24);
                let b: Vec<u8> = (0..len).map(|_| if rng.chance(1, 3) { rng.below(256) as u8 } else { *rng.pick(JSON_REPS) }).collect();
                out.emit(dec_json_event(wk, &b, "random"));
            }
            2 | 3 => {
                // splice of corpus pieces, possibly under a grid header
                let c = if i % 2 == 0 { &zc } else { &dc };
                let mut b = if rng.chance(1, 2) { b"ver:\"3.0\"\na,b\n".to_vec() } else { vec![] };
                for _ in 0..(1 + rng.below(4)) {
                    b.extend(piece(&mut rng, c, 40));
                }
                out.emit(dec_zinc_event(wk, &b, "splice"));
            }
            4 => {
                let mut b = vec![];
                for _ in 0..(1 + rng.below(4)) {
                    b.extend(piece(&mut rng, &jc, 60));
                }
                out.emit(dec_json_event(wk, &b, "splice"));
            }
            _ => {
                // a window of the corpus starting at a line start (often a valid row under a header)
                let c = &zc;
                if c.is_empty() {
                    continue;
                }
                let mut st = rng.below(c.len());
                while st > 0 && c[st - 1] != b'\n' {
                    st -= 1;
                }
                let len = 1 + rng.below(400);
                let mut b = b"ver:\"3.0\"\na,b,c,d\n".to_vec();
                b.extend_from_slice(&c[st..(st + len).min(c.len())]);
                out.emit(dec_zinc_event(wk, &b, "window"));
            }
        }
    }
}

/// corpus file: decode, encode in the same format, decode again; one event per row so that TLC can judge sameness
pub fn stab_file(out: &mut Out, path: &str, fmt: &str) -> Result<(), String> {
    let text = std::fs::read_to_string(path).map_err(|e| format!("{path}: {e}"))?;
    let dec = |t: &str| -> Result<Value, String> {
        if fmt == "json" {
            serde_json::from_str::<Value>(t).map_err(|e| e.to_string())
        } else {
            zinc::decode::from_str(t).map_err(|e| e.to_string())
        }
    };
    let r = guarded(|| -> Result<(Value, Value), String> {
        let v1 = dec(&text)?;
        let t2 = if fmt == "json" { serde_json::to_string(&v1).map_err(|e| e.to_string())? } else { zinc::encode::to_zinc_string(&v1).map_err(|e| e.to_string())? };
        let v2 = dec(&t2)?;
        Ok((v1, v2))
    });
    match r {
        Ok(Ok((Value::Grid(g1), Value::Grid(g2)))) => {
            let h = |g: &Grid| { let mut x = g.clone(); x.rows.clear(); alpha(&Value::Grid(x)) };
            out.emit(json!({"op":"stab.head","path":path,"fmt":fmt,"outcome":"ok","a":h(&g1),"b":h(&g2),"na":g1.rows.len(),"nb":g2.rows.len()}));
            for (i, (a, b)) in g1.rows.iter().zip(g2.rows.iter()).enumerate() {
                out.emit(json!({"op":"stab.row","path":path,"fmt":fmt,"row":i,"a":tags(a),"b":tags(b)}));
            }
        }
        Ok(Ok((v1, v2))) => out.emit(json!({"op":"stab.head","path":path,"fmt":fmt,"outcome":"ok","a":alpha(&v1),"b":alpha(&v2),"na":0,"nb":0})),
        Ok(Err(e)) => out.emit(json!({"op":"stab.head","path":path,"fmt":fmt,"outcome":"err","msg":short(&e),"a":{"k":"null"},"b":{"k":"null"},"na":0,"nb":0})),
        Err(p) => out.emit(json!({"op":"stab.head","path":path,"fmt":fmt,"outcome":"panic","msg":short(&p),"a":{"k":"null"},"b":{"k":"null"},"na":0,"nb":0})),
    }
    Ok(())
}

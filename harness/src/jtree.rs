//! Order- and spelling-preserving JSON trees (shape of spec/Hayson.tla), text <-> tree.
//! Trusted: plain JSON syntax only, no Haystack logic.
use serde_json::{json, Value as J};

pub struct P<'a> {
    s: &'a [char],
    p: usize,
}

fn cps_of(s: &str) -> J {
    J::Array(s.chars().map(|c| J::from(c as u32)).collect())
}

impl<'a> P<'a> {
    fn ws(&mut self) {
        while self.p < self.s.len() && matches!(self.s[self.p], ' ' | '\t' | '\n' | '\r') {
            self.p += 1;
        }
    }
    fn peek(&self) -> Option<char> {
        self.s.get(self.p).copied()
    }
    fn expect(&mut self, c: char) -> Result<(), String> {
        if self.peek() == Some(c) {
            self.p += 1;
            Ok(())
        } else {
            Err(format!("expected {c} at {}", self.p))
        }
    }
    fn string(&mut self) -> Result<String, String> {
        self.expect('"')?;
        let mut out = String::new();
        loop {
            let c = self.peek().ok_or("unterminated string")?;
            self.p += 1;
            match c {
                '"' => return Ok(out),
                '\\' => {
                    let e = self.peek().ok_or("bad escape")?;
                    self.p += 1;
                    match e {
                        '"' => out.push('"'),
                        '\\' => out.push('\\'),
                        '/' => out.push('/'),
                        'b' => out.push('\u{8}'),
                        'f' => out.push('\u{c}'),
                        'n' => out.push('\n'),
                        'r' => out.push('\r'),
                        't' => out.push('\t'),
                        'u' => {
                            let h = self.hex4()?;
                            if (0xD800..0xDC00).contains(&h) {
                                self.expect('\\')?;
                                self.expect('u')?;
                                let l = self.hex4()?;
                                let c = 0x10000 + ((h - 0xD800) << 10) + (l - 0xDC00);
                                out.push(char::from_u32(c).ok_or("bad surrogate")?);
                            } else {
                                out.push(char::from_u32(h).ok_or("bad escape")?);
                            }
                        }
                        _ => return Err("bad escape".into()),
                    }
                }
                c if (c as u32) < 0x20 => return Err("control character in string".into()),
                c => out.push(c),
            }
        }
    }
    fn hex4(&mut self) -> Result<u32, String> {
        let mut v = 0;
        for _ in 0..4 {
            let c = self.peek().ok_or("bad hex")?;
            self.p += 1;
            v = v * 16 + c.to_digit(16).ok_or("bad hex")?;
        }
        Ok(v)
    }
    fn value(&mut self) -> Result<J, String> {
        self.ws();
        match self.peek().ok_or("unexpected end")? {
            '{' => {
                self.p += 1;
                let mut mem = Vec::new();
                self.ws();
                if self.peek() == Some('}') {
                    self.p += 1;
                    return Ok(json!({"j":"obj","mem":mem}));
                }
                loop {
                    self.ws();
                    let k = self.string()?;
                    self.ws();
                    self.expect(':')?;
                    let v = self.value()?;
                    mem.push(J::Array(vec![cps_of(&k), v]));
                    self.ws();
                    match self.peek() {
                        Some(',') => self.p += 1,
                        Some('}') => {
                            self.p += 1;
                            return Ok(json!({"j":"obj","mem":mem}));
                        }
                        _ => return Err("expected , or }".into()),
                    }
                }
            }
            '[' => {
                self.p += 1;
                let mut items = Vec::new();
                self.ws();
                if self.peek() == Some(']') {
                    self.p += 1;
                    return Ok(json!({"j":"arr","items":items}));
                }
                loop {
                    items.push(self.value()?);
                    self.ws();
                    match self.peek() {
                        Some(',') => self.p += 1,
                        Some(']') => {
                            self.p += 1;
                            return Ok(json!({"j":"arr","items":items}));
                        }
                        _ => return Err("expected , or ]".into()),
                    }
                }
            }
            '"' => {
                let s = self.string()?;
                Ok(json!({"j":"str","s":cps_of(&s)}))
            }
            't' | 'f' | 'n' => {
                for (w, v) in [("true", json!({"j":"bool","b":true})), ("false", json!({"j":"bool","b":false})), ("null", json!({"j":"null"}))] {
                    let wc: Vec<char> = w.chars().collect();
                    if self.s[self.p..].starts_with(&wc) {
                        self.p += wc.len();
                        return Ok(v);
                    }
                }
                Err("bad literal".into())
            }
            _ => {
                let st = self.p;
                while self.p < self.s.len() && matches!(self.s[self.p], '0'..='9' | '-' | '+' | '.' | 'e' | 'E') {
                    self.p += 1;
                }
                if st == self.p {
                    return Err(format!("unexpected char at {st}"));
                }
                let lit: String = self.s[st..self.p].iter().collect();
                if !json_number(&lit) {
                    return Err(format!("bad number {lit}"));
                }
                Ok(json!({"j":"num","lit":cps_of(&lit)}))
            }
        }
    }
}

/// JSON number grammar: -? (0 | [1-9][0-9]*) (. [0-9]+)? ([eE] [+-]? [0-9]+)?
fn json_number(s: &str) -> bool {
    let b = s.as_bytes();
    let mut i = 0;
    if i < b.len() && b[i] == b'-' {
        i += 1;
    }
    if i >= b.len() {
        return false;
    }
    if b[i] == b'0' {
        i += 1;
    } else if b[i].is_ascii_digit() {
        while i < b.len() && b[i].is_ascii_digit() {
            i += 1;
        }
    } else {
        return false;
    }
    if i < b.len() && b[i] == b'.' {
        i += 1;
        let st = i;
        while i < b.len() && b[i].is_ascii_digit() {
            i += 1;
        }
        if st == i {
            return false;
        }
    }
    if i < b.len() && (b[i] == b'e' || b[i] == b'E') {
        i += 1;
        if i < b.len() && (b[i] == b'+' || b[i] == b'-') {
            i += 1;
        }
        let st = i;
        while i < b.len() && b[i].is_ascii_digit() {
            i += 1;
        }
        if st == i {
            return false;
        }
    }
    i == b.len()
}

pub fn parse(text: &str) -> Result<J, String> {
    let chars: Vec<char> = text.chars().collect();
    let mut p = P { s: &chars, p: 0 };
    let v = p.value()?;
    p.ws();
    if p.p != chars.len() {
        return Err("trailing text".into());
    }
    Ok(v)
}

fn text_of(j: &J) -> String {
    j.as_array().map(|a| a.iter().filter_map(|c| char::from_u32(c.as_u64().unwrap_or(0xFFFD) as u32)).collect()).unwrap_or_default()
}

fn quote(s: &str, out: &mut String) {
    out.push('"');
    for c in s.chars() {
        match c {
            '"' => out.push_str("\\\""),
            '\\' => out.push_str("\\\\"),
            '\n' => out.push_str("\\n"),
            '\r' => out.push_str("\\r"),
            '\t' => out.push_str("\\t"),
            c if (c as u32) < 32 => out.push_str(&format!("\\u{:04x}", c as u32)),
            c => out.push(c),
        }
    }
    out.push('"');
}

pub fn print(t: &J, out: &mut String) {
    match t["j"].as_str().unwrap_or("") {
        "null" => out.push_str("null"),
        "bool" => out.push_str(if t["b"].as_bool().unwrap_or(false) { "true" } else { "false" }),
        "num" => out.push_str(&text_of(&t["lit"])),
        "str" => quote(&text_of(&t["s"]), out),
        "arr" => {
            out.push('[');
            for (i, x) in t["items"].as_array().unwrap().iter().enumerate() {
                if i > 0 {
                    out.push(',');
                }
                print(x, out);
            }
            out.push(']');
        }
        "obj" => {
            out.push('{');
            for (i, m) in t["mem"].as_array().unwrap().iter().enumerate() {
                if i > 0 {
                    out.push(',');
                }
                quote(&text_of(&m[0]), out);
                out.push(':');
                print(&m[1], out);
            }
            out.push('}');
        }
        _ => out.push_str("null"),
    }
}

//! Zinc codec operations (C01, C04, C10, C11, C15 share these).
use crate::absval::{alpha, cps, gamma, text_of};
use crate::util::{guarded, short};
use libhaystack::encoding::zinc;
use libhaystack::encoding::zinc::encode::ToZinc;
use libhaystack::val::Value;
use serde_json::{json, Value as J};

pub fn decode_event(text: &str) -> (String, J, String) {
    match guarded(|| zinc::decode::from_str(text)) {
        Ok(Ok(v)) => ("ok".into(), alpha(&v), String::new()),
        Ok(Err(e)) => ("err".into(), json!({"k":"null"}), short(&e.to_string())),
        Err(p) => ("panic".into(), json!({"k":"null"}), short(&p)),
    }
}

/// encode v with libhaystack, decode the text again
pub fn zinc_rt(v: &Value, vj: &J) -> J {
    let enc = guarded(|| zinc::encode::to_zinc_string(v));
    let text = match enc {
        Ok(Ok(t)) => t,
        Ok(Err(e)) => return json!({"op":"zinc.rt","v":vj,"text":[],"outcome":"encerr","back":{"k":"null"},"msg":short(&e.to_string()),"trait_same":true}),
        Err(p) => return json!({"op":"zinc.rt","v":vj,"text":[],"outcome":"encpanic","back":{"k":"null"},"msg":short(&p),"trait_same":true}),
    };
    let trait_same = match guarded(|| v.to_zinc_string()) {
        Ok(Ok(t2)) => t2 == text,
        _ => false,
    };
    let (outcome, back, msg) = decode_event(&text);
    json!({"op":"zinc.rt","v":vj,"text":cps(&text),"outcome":outcome,"back":back,"msg":msg,"trait_same":trait_same})
}

pub fn run(vec: &J) -> Result<J, String> {
    let op = vec["op"].as_str().unwrap_or("");
    match op {
        "zinc.rt" => {
            let v = gamma(&vec["v"])?;
            Ok(zinc_rt(&v, &vec["v"]))
        }
        "zinc.read" => {
            let text = text_of(&vec["text"])?;
            let (outcome, back, msg) = decode_event(&text);
            Ok(json!({"op":"zinc.read","v":vec["v"],"text":vec["text"],"st":vec["st"],"outcome":outcome,"back":back,"msg":msg}))
        }
        _ => Err(format!("unknown zinc op {op}")),
    }
}

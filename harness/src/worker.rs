//! Isolation of calls into libhaystack that may hang or abort: a worker child process (`hs worker`) executes one
//! request per line; the parent enforces a time limit, kills and restarts the worker, and reports
//! "timeout" / "abort" as the outcome. A timeout is retried once alone with a longer limit before it is reported.
use serde_json::{json, Value as J};
use std::io::{BufRead, BufReader, Write};
use std::process::{Child, ChildStdin, Command, Stdio};
use std::sync::mpsc::{self, Receiver};
use std::time::Duration;

pub struct Worker {
    child: Child,
    stdin: ChildStdin,
    rx: Receiver<Option<String>>,
    pub restarts: usize,
}

fn spawn() -> (Child, ChildStdin, Receiver<Option<String>>) {
    let exe = std::env::current_exe().expect("exe");
    let mut child = Command::new(exe)
        .arg("worker")
        .stdin(Stdio::piped())
        .stdout(Stdio::piped())
        .stderr(match std::env::var("HS_WORKER_STDERR") {
            Ok(path) => std::fs::OpenOptions::new().create(true).append(true).open(path).map(Stdio::from).unwrap_or_else(|_| Stdio::null()),
            Err(_) => Stdio::null(),
        })
        .spawn()
        .expect("spawn worker");
    let stdin = child.stdin.take().unwrap();
    let stdout = child.stdout.take().unwrap();
    let (tx, rx) = mpsc::channel();
    std::thread::spawn(move || {
        let rd = BufReader::new(stdout);
        for line in rd.lines() {
            match line {
                Ok(l) => {
                    if tx.send(Some(l)).is_err() {
                        return;
                    }
                }
                Err(_) => break,
            }
        }
        let _ = tx.send(None);
    });
    (child, stdin, rx)
}

impl Worker {
    pub fn new() -> Worker {
        let (child, stdin, rx) = spawn();
        Worker { child, stdin, rx, restarts: 0 }
    }

    fn restart(&mut self) {
        let _ = self.child.kill();
        let _ = self.child.wait();
        let (child, stdin, rx) = spawn();
        self.child = child;
        self.stdin = stdin;
        self.rx = rx;
        self.restarts += 1;
    }

    fn call_once(&mut self, req: &J, limit: Duration) -> Result<J, &'static str> {
        let line = serde_json::to_string(req).unwrap();
        if self.stdin.write_all(line.as_bytes()).is_err() || self.stdin.write_all(b"\n").is_err() || self.stdin.flush().is_err() {
            self.restart();
            return Err("abort");
        }
        match self.rx.recv_timeout(limit) {
            Ok(Some(l)) => serde_json::from_str(&l).map_err(|_| "abort"),
            Ok(None) => {
                self.restart();
                Err("abort")
            }
            Err(_) => {
                self.restart();
                Err("timeout")
            }
        }
    }

    /// fatal outcomes are "timeout" (after one retry alone with a 5x limit) and "abort" (the process died)
    pub fn call(&mut self, req: &J, limit_ms: u64) -> Result<J, &'static str> {
        match self.call_once(req, Duration::from_millis(limit_ms)) {
            Err("timeout") => self.call_once(req, Duration::from_millis(limit_ms * 5)),
            other => other,
        }
    }

    /// reply or a stub carrying the fatal outcome
    pub fn call_or(&mut self, req: &J, limit_ms: u64) -> J {
        match self.call(req, limit_ms) {
            Ok(j) => j,
            Err(f) => json!({"outcome":f,"back":{"k":"null"},"msg":"","rows":[],"consumed":[]}),
        }
    }
}

impl Drop for Worker {
    fn drop(&mut self) {
        let _ = self.child.kill();
        let _ = self.child.wait();
    }
}

/// body of the worker process
pub fn worker_main(handle: fn(&J) -> J) {
    let stdin = std::io::stdin();
    let stdout = std::io::stdout();
    for line in stdin.lock().lines() {
        let line = match line {
            Ok(l) => l,
            Err(_) => break,
        };
        let req: J = match serde_json::from_str(&line) {
            Ok(j) => j,
            Err(_) => continue,
        };
        let reply = handle(&req);
        let mut o = stdout.lock();
        let _ = serde_json::to_writer(&mut o, &reply);
        let _ = o.write_all(b"\n");
        let _ = o.flush();
    }
}

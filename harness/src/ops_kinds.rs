//! Kinds, typed accessors, grid construction (C19).
use crate::absval::{alpha, alpha_grid, gamma, gamma_tags};
use crate::util::{guarded, Out};
use libhaystack::val::kind::HaystackKind;
use libhaystack::val::*;
use serde_json::{json, Value as J};

pub fn code_event(code: u8) -> J {
    match HaystackKind::try_from(code) {
        Ok(k) => {
            let name: &'static str = k.into();
            let name2 = k.to_string();
            let back = HaystackKind::try_from(name);
            json!({"op":"kind.code","code":code,"ok":true,"back":k as u8,"name":name,"name2":name2,
                   "name_back_ok":back.is_ok(),"name_back_code":back.map(|b| b as u8 as i64).unwrap_or(-1)})
        }
        Err(_) => json!({"op":"kind.code","code":code,"ok":false,"back":-1,"name":"","name2":"","name_back_ok":false,"name_back_code":-1}),
    }
}

pub fn name_event(name: &str) -> J {
    match HaystackKind::try_from(name) {
        Ok(k) => json!({"op":"kind.name","name":name,"ok":true,"display":k.to_string()}),
        Err(_) => json!({"op":"kind.name","name":name,"ok":false,"display":""}),
    }
}

pub fn value_event(v: &Value) -> J {
    let r = guarded(|| {
        let preds = vec![v.is_null(), v.is_remove(), v.is_marker(), v.is_na(), v.is_bool(), v.is_number(), v.is_str(), v.is_uri(), v.is_ref(), v.is_symbol(),
            v.is_date(), v.is_time(), v.is_datetime(), v.is_coord(), v.is_xstr(), v.is_list(), v.is_dict(), v.is_grid()];
        let kind = HaystackKind::from(v).to_string();
        // typed conversions TryFrom<&Value> (none for Null / Remove / Marker / Na payload-free kinds except via their unit types)
        macro_rules! conv {
            ($t:ty) => {
                <$t>::try_from(v).ok().map(|x| Value::from(x))
            };
        }
        let typed: Vec<Option<Option<Value>>> = vec![
            None, None, None, None,
            Some(Bool::try_from(v).ok().map(Value::from)), Some(conv!(Number)), Some(conv!(Str)), Some(conv!(Uri)), Some(conv!(Ref)), Some(conv!(Symbol)),
            Some(conv!(Date)), Some(conv!(Time)), Some(conv!(DateTime)), Some(conv!(Coord)), Some(conv!(XStr)), Some(conv!(List)), Some(conv!(Dict)), Some(conv!(Grid)),
        ];
        let typed_exists: Vec<bool> = typed.iter().map(|t| t.is_some()).collect();
        let typed_ok: Vec<bool> = typed.iter().map(|t| matches!(t, Some(Some(_)))).collect();
        let typed_same = typed.iter().all(|t| match t {
            Some(Some(x)) => alpha(x) == alpha(v),
            _ => true,
        });
        // conversions into primitive / unit types: [f64, bool, String, Marker, Na, Remove] - which succeed, and do they return the payload
        let prim_ok = vec![f64::try_from(v).is_ok(), bool::try_from(v).is_ok(), String::try_from(v).is_ok(), Marker::try_from(v).is_ok(),
            Na::try_from(v).is_ok(), Remove::try_from(v).is_ok()];
        let prim_same = match v {
            Value::Number(n) => f64::try_from(v).map(|x| x.to_bits() == n.value.to_bits()).unwrap_or(true),
            Value::Bool(b) => bool::try_from(v).map(|x| x == b.value).unwrap_or(true),
            Value::Str(s) => String::try_from(v).map(|x| x == s.value).unwrap_or(true),
            _ => true,
        };
        let mut d = Dict::new();
        d.insert("x".into(), v.clone());
        let g: Vec<Option<Option<Value>>> = vec![
            None, None, None, None,
            Some(d.get_bool("x").map(|x| Value::from(*x))), Some(d.get_num("x").map(|x| Value::from(*x))), Some(d.get_str("x").map(|x| Value::from(x.clone()))),
            Some(d.get_uri("x").map(|x| Value::from(x.clone()))), Some(d.get_ref("x").map(|x| Value::from(x.clone()))), Some(d.get_symbol("x").map(|x| Value::from(x.clone()))),
            Some(d.get_date("x").map(|x| Value::from(*x))), Some(d.get_time("x").map(|x| Value::from(*x))), Some(d.get_date_time("x").map(|x| Value::from(*x))),
            Some(d.get_coord("x").map(|x| Value::from(*x))), Some(d.get_xstr("x").map(|x| Value::from(x.clone()))), Some(d.get_list("x").map(|x| Value::from(x.clone()))),
            Some(d.get_dict("x").map(|x| Value::from(x.clone()))), Some(d.get_grid("x").map(|x| Value::from(x.clone()))),
        ];
        let getter_exists: Vec<bool> = g.iter().map(|t| t.is_some()).collect();
        let getter_ok: Vec<bool> = g.iter().map(|t| matches!(t, Some(Some(_)))).collect();
        let getter_same = g.iter().all(|t| match t {
            Some(Some(x)) => alpha(x) == alpha(v),
            _ => true,
        }) && d.get_bool("y").is_none() && d.get_num("y").is_none() && d.get_str("y").is_none();
        let has_ok = d.has("x") && !d.missing("x") && d.missing("y") && !d.has("y")
            && d.has_marker("x") == v.is_marker() && d.has_na("x") == v.is_na() && d.has_remove("x") == v.is_remove() && !d.has_marker("y");
        json!({"preds":preds,"kind_name":kind,"typed_exists":typed_exists,"typed_ok":typed_ok,"typed_same":typed_same,"prim_ok":prim_ok,"prim_same":prim_same,
               "getter_exists":getter_exists,"getter_ok":getter_ok,"getter_same":getter_same,"has_ok":has_ok})
    });
    match r {
        Ok(mut j) => {
            j["op"] = json!("kind.value");
            j["v"] = alpha(v);
            j["monitor"] = json!("ok");
            j
        }
        Err(_) => json!({"op":"kind.value","v":alpha(v),"monitor":"panic","preds":[],"kind_name":"","typed_exists":[],"typed_ok":[],"typed_same":false,"prim_ok":[],"prim_same":false,
                         "getter_exists":[],"getter_ok":[],"getter_same":false,"has_ok":false}),
    }
}

pub fn grid_event(rows: Vec<Dict>, rows_j: &J) -> J {
    let mut meta = Dict::new();
    meta.insert("m".into(), Value::Marker);
    meta.insert("n".into(), Value::make_int(1));
    // the grid helpers (beyond the listed property): len / is_empty / indexing / iteration / is_err / make_err / make_empty
    let dis = rows.first().and_then(|r| r.keys().next().cloned()).unwrap_or_else(|| "no rows \"here\"".to_string());
    let mut errmeta = meta.clone();
    match rows.len() % 3 {
        0 => { errmeta.insert("err".into(), Value::Marker); }
        1 => { errmeta.insert("err".into(), Value::make_str("not a marker")); }
        _ => {}
    }
    let r = guarded(|| {
        let g = Grid::make_from_dicts(rows.clone());
        let vg = Value::make_grid_from_dicts(rows.clone());
        let mg = Grid::make_from_dicts_with_meta(rows.clone(), meta.clone());
        let eg = Grid::make_from_dicts_with_meta(rows.clone(), errmeta.clone());
        // compared through the projection: `==` is not reflexive for records holding a NaN
        let indexed = (0..g.len()).all(|i| crate::absval::tags(&g[i]) == crate::absval::tags(&rows[i]))
            && (&g).into_iter().map(crate::absval::tags).collect::<Vec<J>>() == rows.iter().map(crate::absval::tags).collect::<Vec<J>>();
        let helpers = json!({"len":g.len(),"is_empty":g.is_empty(),"is_err":g.is_err(),"meta_is_err":mg.is_err(),"errmeta":crate::absval::tags(&errmeta),
            "errmeta_is_err":eg.is_err(),"indexed":indexed,"dis":crate::absval::cps(&dis),"make_err":alpha_grid(&Grid::make_err(&dis)),
            "make_err_is_err":Grid::make_err(&dis).is_err(),"make_empty":alpha_grid(&Grid::make_empty()),"default":alpha_grid(&Grid::default())});
        (alpha_grid(&g), alpha(&vg), alpha_grid(&mg), helpers)
    });
    match r {
        Ok((g, vg, mg, h)) => json!({"op":"kind.grid","rows":rows_j,"grid":g,"value_grid":vg,"meta_grid":mg,"meta":crate::absval::tags(&meta),"monitor":"ok","helpers":[h]}),
        Err(_) => json!({"op":"kind.grid","rows":rows_j,"grid":{"k":"null"},"value_grid":{"k":"null"},"meta_grid":{"k":"null"},"meta":[],"monitor":"panic","helpers":[]}),
    }
}

pub fn run(vec: &J, out: &mut Out) -> Result<(), String> {
    match vec["op"].as_str().unwrap_or("") {
        "kind.code" => {
            out.emit(code_event(vec["code"].as_u64().ok_or("code")? as u8));
            Ok(())
        }
        "kind.name" => {
            out.emit(name_event(vec["name"].as_str().ok_or("name")?));
            Ok(())
        }
        "kind.endmark" => {
            out.emit(json!({"op":"kind.end"}));
            Ok(())
        }
        "kind.value" => {
            out.emit(value_event(&gamma(&vec["v"])?));
            Ok(())
        }
        "kind.grid" => {
            let rows: Vec<Dict> = vec["rows"].as_array().ok_or("rows")?.iter().map(gamma_tags).collect::<Result<_, _>>()?;
            out.emit(grid_event(rows, &vec["rows"]));
            Ok(())
        }
        _ => Err("unknown kind op".into()),
    }
}

/// REC: random values and random lists of 0-30 records
pub fn rec(out: &mut Out, seed: u64, n: usize) {
    let mut g = crate::gen::Gen::new(seed);
    for _ in 0..n {
        let v = g.value(2);
        out.emit(value_event(&v));
    }
    for _ in 0..(n / 4) {
        let k = g.rng.below(31);
        let rows: Vec<Dict> = (0..k).map(|_| g.dict(1, 6)).collect();
        let rows_j = J::Array(rows.iter().map(crate::absval::tags).collect());
        out.emit(grid_event(rows, &rows_j));
    }
}

//! Equality / hash / order observations (C12).
use crate::absval::{alpha, gamma};
use crate::gen::Gen;
use crate::util::{guarded, Out};
use libhaystack::val::Value;
use serde_json::{json, Value as J};
use std::cmp::Ordering;
use std::collections::hash_map::RandomState;
use std::collections::{BTreeSet, HashSet};
use std::hash::BuildHasher;

fn ord(o: Ordering) -> i64 {
    match o {
        Ordering::Less => -1,
        Ordering::Equal => 0,
        Ordering::Greater => 1,
    }
}

pub fn universe_events(out: &mut Out, vals: &[Value]) {
    let (s1, s2) = (RandomState::new(), RandomState::new());
    let n = vals.len();
    let r = guarded(|| {
        let mut rows = Vec::new();
        for (i, a) in vals.iter().enumerate() {
            let eq: Vec<bool> = vals.iter().map(|b| a == b).collect();
            let ne: Vec<bool> = vals.iter().map(|b| a != b).collect();
            let cmp: Vec<i64> = vals.iter().map(|b| ord(a.cmp(b))).collect();
            let pcmp: Vec<i64> = vals.iter().map(|b| a.partial_cmp(b).map(ord).unwrap_or(2)).collect();
            let h = [s1.hash_one(a).to_string(), s2.hash_one(a).to_string()];
            #[allow(clippy::redundant_clone)]
            let clone_eq = a.clone() == *a;
            rows.push(json!({"op":"ord.row","idx":i + 1,"v":alpha(a),"eq":eq,"ne":ne,"cmp":cmp,"pcmp":pcmp,"hash":h,"clone_eq":clone_eq}));
        }
        let hs: HashSet<&Value> = vals.iter().collect();
        let bs: BTreeSet<&Value> = vals.iter().collect();
        let mut sorted: Vec<Value> = vals.to_vec();
        sorted.sort();
        sorted.dedup();
        (rows, hs.len(), bs.len(), sorted.len())
    });
    match r {
        Ok((rows, h, b, s)) => {
            for row in rows {
                out.emit(row);
            }
            out.emit(json!({"op":"ord.end","n":n,"hashset":h,"btreeset":b,"sortdedup":s,"monitor":"ok"}));
        }
        Err(_) => out.emit(json!({"op":"ord.end","n":0,"hashset":0,"btreeset":0,"sortdedup":0,"monitor":"panic"})),
    }
}

/// The same abstract value in its other in-memory representation: every grid's absent meta becomes an empty meta and vice
/// versa, likewise every column's meta. The data model (and the codecs) identify the two; whatever equality makes of
/// them, Hash and the orders have to agree with it.
pub fn other_representation(v: &Value) -> Value {
    use libhaystack::val::{Dict, Grid, List};
    fn flip(m: &Option<Dict>) -> Option<Dict> {
        match m {
            None => Some(Dict::default()),
            Some(d) if d.is_empty() => None,
            Some(d) => Some(d.iter().map(|(k, x)| (k.clone(), other_representation(x))).collect::<std::collections::BTreeMap<_, _>>().into()),
        }
    }
    match v {
        Value::List(l) => Value::make_list(l.iter().map(other_representation).collect::<List>()),
        Value::Dict(d) => {
            let mut n = Dict::default();
            for (k, x) in d.iter() {
                n.insert(k.clone(), other_representation(x));
            }
            Value::make_dict(n)
        }
        Value::Grid(g) => {
            let mut n: Grid = g.clone();
            n.meta = flip(&g.meta);
            for (c, o) in n.columns.iter_mut().zip(g.columns.iter()) {
                c.meta = flip(&o.meta);
            }
            for (r, o) in n.rows.iter_mut().zip(g.rows.iter()) {
                let mut d = Dict::default();
                for (k, x) in o.iter() {
                    d.insert(k.clone(), other_representation(x));
                }
                *r = d;
            }
            Value::make_grid(n)
        }
        other => other.clone(),
    }
}

fn with_variants(vals: Vec<Value>, max: usize) -> Vec<Value> {
    let mut out = vals.clone();
    let mut added = 0;
    for v in &vals {
        let o = other_representation(v);
        if format!("{:?}", o) != format!("{:?}", v) && added < max {
            out.push(o);
            added += 1;
        }
    }
    out
}

pub fn run(vec: &J, out: &mut Out) -> Result<(), String> {
    match vec["op"].as_str().unwrap_or("") {
        "ord.universe" => {
            let vals: Vec<Value> = vec["values"].as_array().ok_or("values")?.iter().map(gamma).collect::<Result<_, _>>()?;
            universe_events(out, &with_variants(vals, usize::MAX));
            Ok(())
        }
        _ => Err("unknown ord op".into()),
    }
}

/// REC: random universes (no NaN), each with a few deliberate duplicates and clones
pub fn rec(out: &mut Out, seed: u64, n: usize) {
    let mut g = Gen::new(seed);
    for _ in 0..n {
        let mut vals: Vec<Value> = Vec::new();
        while vals.len() < 60 {
            let v = g.value(2);
            let txt = format!("{:?}", v);
            if txt.contains("NaN") {
                continue;
            }
            vals.push(v);
        }
        for i in 0..10 {
            let c = vals[i * 3].clone();
            vals.push(c);
        }
        universe_events(out, &with_variants(vals, 12));
    }
}

//! Hayson (JSON) codec operations (C02, C05, C10, C11, C15).
use crate::absval::{alpha, gamma};
use crate::jtree;
use crate::util::{guarded, short};
use libhaystack::val::*;
use serde_json::{json, Value as J};

fn res(r: Result<Result<Value, String>, String>) -> (String, J, String) {
    match r {
        Ok(Ok(v)) => ("ok".into(), alpha(&v), String::new()),
        Ok(Err(e)) => ("err".into(), json!({"k":"null"}), short(&e)),
        Err(p) => ("panic".into(), json!({"k":"null"}), short(&p)),
    }
}

macro_rules! typed_rt {
    ($t:ty, $x:expr) => {{
        let x: &$t = $x;
        guarded(|| -> Result<Value, String> {
            let s = serde_json::to_string(x).map_err(|e| e.to_string())?;
            let b: $t = serde_json::from_str(&s).map_err(|e| e.to_string())?;
            Ok(Value::from(b))
        })
    }};
}

/// encode v through every serde_json entry point and decode through every entry point
pub fn hayson_rt(v: &Value, vj: &J) -> J {
    let text = match guarded(|| serde_json::to_string(v)) {
        Ok(Ok(t)) => t,
        Ok(Err(e)) => return json!({"op":"hayson.rt","v":vj,"tree":{"j":"null"},"outcome":"encerr","msg":short(&e.to_string()),"backs":[]}),
        Err(p) => return json!({"op":"hayson.rt","v":vj,"tree":{"j":"null"},"outcome":"encpanic","msg":short(&p),"backs":[]}),
    };
    let tree = match jtree::parse(&text) {
        Ok(t) => t,
        Err(e) => return json!({"op":"hayson.rt","v":vj,"tree":{"j":"null"},"outcome":"notjson","msg":short(&e),"backs":[]}),
    };
    let mut results: Vec<(String, (String, J, String))> = Vec::new();
    let bytes = guarded(|| serde_json::to_vec(v).map_err(|e| e.to_string()));
    let val = guarded(|| serde_json::to_value(v).map_err(|e| e.to_string()));
    // to_string x {from_str, from_slice, from_value(parsed)}
    results.push(("string/from_str".into(), res(guarded(|| serde_json::from_str::<Value>(&text).map_err(|e| e.to_string())))));
    results.push(("string/from_slice".into(), res(guarded(|| serde_json::from_slice::<Value>(text.as_bytes()).map_err(|e| e.to_string())))));
    results.push((
        "string/from_value".into(),
        res(guarded(|| {
            let j: serde_json::Value = serde_json::from_str(&text).map_err(|e| e.to_string())?;
            serde_json::from_value::<Value>(j).map_err(|e| e.to_string())
        })),
    ));
    match &bytes {
        Ok(Ok(b)) => {
            results.push(("vec/from_slice".into(), res(guarded(|| serde_json::from_slice::<Value>(b).map_err(|e| e.to_string())))));
            results.push((
                "vec/from_str".into(),
                res(guarded(|| {
                    let s = std::str::from_utf8(b).map_err(|e| e.to_string())?;
                    serde_json::from_str::<Value>(s).map_err(|e| e.to_string())
                })),
            ));
        }
        Ok(Err(e)) => results.push(("vec".into(), ("encerr".into(), json!({"k":"null"}), short(e)))),
        Err(p) => results.push(("vec".into(), ("encpanic".into(), json!({"k":"null"}), short(p)))),
    }
    match &val {
        Ok(Ok(j)) => {
            results.push(("value/from_value".into(), res(guarded(|| serde_json::from_value::<Value>(j.clone()).map_err(|e| e.to_string())))));
            results.push((
                "value/from_str".into(),
                res(guarded(|| {
                    let s = serde_json::to_string(j).map_err(|e| e.to_string())?;
                    serde_json::from_str::<Value>(&s).map_err(|e| e.to_string())
                })),
            ));
        }
        Ok(Err(e)) => results.push(("value".into(), ("encerr".into(), json!({"k":"null"}), short(e)))),
        Err(p) => results.push(("value".into(), ("encpanic".into(), json!({"k":"null"}), short(p)))),
    }
    // typed Serialize / Deserialize pair of the payload type
    let typed = match v {
        Value::Marker => Some(typed_rt!(Marker, &Marker)),
        Value::Na => Some(typed_rt!(Na, &Na)),
        Value::Remove => Some(typed_rt!(Remove, &Remove)),
        Value::Number(x) => Some(typed_rt!(Number, x)),
        Value::Ref(x) => Some(typed_rt!(Ref, x)),
        Value::Uri(x) => Some(typed_rt!(Uri, x)),
        Value::Symbol(x) => Some(typed_rt!(Symbol, x)),
        Value::Date(x) => Some(typed_rt!(Date, x)),
        Value::Time(x) => Some(typed_rt!(Time, x)),
        Value::DateTime(x) => Some(typed_rt!(DateTime, x)),
        Value::Coord(x) => Some(typed_rt!(Coord, x)),
        Value::XStr(x) => Some(typed_rt!(XStr, x)),
        Value::Dict(x) => Some(typed_rt!(Dict, x)),
        Value::Grid(x) => Some(typed_rt!(Grid, x)),
        _ => None,
    };
    if let Some(t) = typed {
        results.push(("typed".into(), res(t)));
    }
    // group identical results
    let mut backs: Vec<J> = Vec::new();
    for (name, (outcome, back, msg)) in results {
        if let Some(b) = backs.iter_mut().find(|b| b["outcome"] == outcome.as_str() && b["back"] == back) {
            b["combos"].as_array_mut().unwrap().push(J::from(name));
        } else {
            backs.push(json!({"combos":[name],"outcome":outcome,"back":back,"msg":msg}));
        }
    }
    json!({"op":"hayson.rt","v":vj,"tree":tree,"outcome":"ok","msg":"","backs":backs})
}

pub fn run(vec: &J) -> Result<J, String> {
    let op = vec["op"].as_str().unwrap_or("");
    match op {
        "hayson.rt" => {
            let v = gamma(&vec["v"])?;
            Ok(hayson_rt(&v, &vec["v"]))
        }
        "hayson.read" => {
            let mut text = String::new();
            jtree::print(&vec["tree"], &mut text);
            let (outcome, back, msg) = res(guarded(|| serde_json::from_str::<Value>(&text).map_err(|e| e.to_string())));
            Ok(json!({"op":"hayson.read","v":vec["v"],"tree":vec["tree"],"st":vec["st"],"outcome":outcome,"back":back,"msg":msg}))
        }
        _ => Err(format!("unknown hayson op {op}")),
    }
}

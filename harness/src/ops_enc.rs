//! Encoder operations on constructible values (C10).
use crate::absval::gamma;
use crate::util::{guarded, short};
use libhaystack::encoding::zinc::encode::{to_zinc_string, ToZinc};
use libhaystack::val::*;
use serde_json::{json, Value as J};

fn res<T>(api: &str, r: Result<Result<T, String>, String>) -> J {
    match r {
        Ok(Ok(_)) => json!({"api":api,"outcome":"ok","msg":""}),
        Ok(Err(e)) => json!({"api":api,"outcome":"err","msg":short(&e)}),
        Err(p) => json!({"api":api,"outcome":"panic","msg":short(&p)}),
    }
}

pub fn encode_all(v: &Value) -> Vec<J> {
    let mut out = vec![
        res("to_zinc_string", guarded(|| to_zinc_string(v).map_err(|e| e.to_string()))),
        res("Value::to_zinc_string", guarded(|| v.to_zinc_string().map_err(|e| e.to_string()))),
        res("serde_json::to_string", guarded(|| serde_json::to_string(v).map_err(|e| e.to_string()))),
        res("serde_json::to_vec", guarded(|| serde_json::to_vec(v).map_err(|e| e.to_string()))),
        res("serde_json::to_value", guarded(|| serde_json::to_value(v).map_err(|e| e.to_string()))),
        // the way display text is obtained in practice: `to_string` panics when the Display implementation reports an error
        res("Display", guarded(|| -> Result<String, String> { Ok(v.to_string()) })),
        res("Display (write!)", guarded(|| -> Result<String, String> {
            use std::fmt::Write;
            let mut s = String::new();
            write!(s, "{}", v).map_err(|e| e.to_string())?;
            Ok(s)
        })),
    ];
    macro_rules! typed {
        ($x:expr) => {{
            out.push(res("typed ToZinc", guarded(|| $x.to_zinc_string().map_err(|e| e.to_string()))));
            out.push(res("typed Serialize", guarded(|| serde_json::to_string($x).map_err(|e| e.to_string()))));
        }};
    }
    match v {
        Value::Number(x) => typed!(x),
        Value::Str(x) => out.push(res("typed ToZinc", guarded(|| x.to_zinc_string().map_err(|e| e.to_string())))),
        Value::Ref(x) => typed!(x),
        Value::Uri(x) => typed!(x),
        Value::Symbol(x) => typed!(x),
        Value::Date(x) => typed!(x),
        Value::Time(x) => typed!(x),
        Value::DateTime(x) => typed!(x),
        Value::Coord(x) => typed!(x),
        Value::XStr(x) => typed!(x),
        Value::Grid(x) => typed!(x),
        Value::Dict(x) => {
            typed!(x);
            out.push(res("Dict::dis", guarded(|| -> Result<String, String> { Ok(x.dis().to_string()) })));
            out.push(res("Dict Display", guarded(|| -> Result<String, String> { Ok(format!("{}", x)) })));
        }
        Value::List(x) => out.push(res("typed ToZinc", guarded(|| x.to_zinc_string().map_err(|e| e.to_string())))),
        _ => {}
    }
    out
}

fn nest(form: &str, n: usize) -> Value {
    let mut v = Value::make_str("x");
    for _ in 0..n {
        v = match form {
            "list" => Value::make_list(vec![v]),
            "dict" => {
                let mut d = Dict::new();
                d.insert("a".into(), v);
                Value::make_dict(d)
            }
            "grid" => {
                let mut d = Dict::new();
                d.insert("a".into(), v);
                Value::make_grid(Grid::make_from_dicts(vec![d]))
            }
            "gridmeta" => {
                let mut d = Dict::new();
                d.insert("m".into(), v);
                Value::make_grid(Grid { meta: Some(d), columns: vec![Column { name: "a".into(), meta: None }], rows: vec![], ver: "3.0".into() })
            }
            _ => {
                let mut d = Dict::new();
                d.insert("a".into(), Value::make_list(vec![v]));
                Value::make_grid(Grid::make_from_dicts(vec![d]))
            }
        };
    }
    v
}

pub fn run(vec: &J) -> Result<J, String> {
    let op = vec["op"].as_str().unwrap_or("");
    match op {
        "enc.all" => {
            let v = gamma(&vec["v"])?;
            Ok(json!({"op":"enc.all","v":vec["v"],"results":encode_all(&v)}))
        }
        "enc.nest" => {
            let form = vec["form"].as_str().unwrap_or("list");
            let n = vec["n"].as_u64().unwrap_or(1) as usize;
            let v = nest(form, n);
            Ok(json!({"op":"enc.nest","form":form,"n":n,"results":encode_all(&v)}))
        }
        "enc.long" => {
            // long texts of multi-byte characters at every alignment, in every text-carrying holder, bare and under each
            // of the tags Dict::dis consults: byte-offset arithmetic on encoded text (truncation, slicing) meets a
            // character boundary at some (pad, n)
            let holder = vec["holder"].as_str().unwrap_or("str");
            let ch = vec["ch"].as_str().unwrap_or("é");
            let pad = vec["pad"].as_u64().unwrap_or(0) as usize;
            let n = vec["n"].as_u64().unwrap_or(1) as usize;
            let text = format!("{}{}", "a".repeat(pad), ch.repeat(n));
            let v = match holder {
                "str" => Value::make_str(&text),
                "uri" => Value::make_uri(&text),
                "refdis" => Value::Ref(Ref { value: "r".into(), dis: Some(text.clone()) }),
                "ref" => Value::make_ref(&text),
                "symbol" => Value::make_symbol(&text),
                "xstr" => Value::make_xstr_from("Bin", &text),
                "list" => Value::make_list(vec![Value::make_str(&text)]),
                "dict" => {
                    let mut d = Dict::new();
                    d.insert("a".into(), Value::make_str(&text));
                    Value::make_dict(d)
                }
                _ => {
                    let mut d = Dict::new();
                    d.insert("a".into(), Value::make_str(&text));
                    Value::make_grid(Grid::make_from_dicts(vec![d]))
                }
            };
            let mut results = encode_all(&v);
            for tag in ["dis", "disMacro", "disKey", "name", "def", "tag", "navName", "id"] {
                let mut d = Dict::new();
                d.insert(tag.into(), v.clone());
                for mut r in encode_all(&Value::make_dict(d)) {
                    if r["api"] == "Dict::dis" || r["api"] == "Dict Display" || r["api"] == "Display" {
                        r["api"] = J::from(format!("{{{tag}: ..}} {}", r["api"].as_str().unwrap_or("")));
                        results.push(r);
                    }
                }
            }
            Ok(json!({"op":"enc.long","holder":holder,"ch":ch,"pad":pad,"n":n,"results":results}))
        }
        "enc.defaultunit" => {
            // Numbers carrying the id-less default unit (what get_unit_or_default returns for an unknown name), bare and nested
            let u = libhaystack::units::get_unit_or_default("noSuchUnit");
            let mut results = Vec::new();
            for x in [42.0, -0.0, f64::NAN, f64::INFINITY] {
                let n = Value::Number(Number { value: x, unit: Some(u) });
                results.extend(encode_all(&n));
                results.extend(encode_all(&Value::make_list(vec![n.clone()])));
                let mut d = Dict::new();
                d.insert("a".into(), n.clone());
                d.insert("dis".into(), n.clone());
                results.extend(encode_all(&Value::make_grid(Grid::make_from_dicts(vec![d.clone()]))));
                results.extend(encode_all(&Value::make_dict(d)));
            }
            Ok(json!({"op":"enc.nest","form":"number with the default unit","n":0,"results":results}))
        }
        "enc.zone" => {
            // a DateTime in the named zone of the bundled tz database (built from the chrono value, no name lookup)
            use chrono::TimeZone;
            let name = vec["zone"].as_str().unwrap_or("UTC");
            let tz: chrono_tz::Tz = name.parse().map_err(|_| format!("unknown zone {name}"))?;
            let mut results = Vec::new();
            for secs in [1_622_543_400i64, 946_684_799, 4_102_444_800] {
                let v = Value::from(DateTime::from(chrono::Utc.timestamp_opt(secs, 250_000_000).unwrap().with_timezone(&tz)));
                results.extend(encode_all(&v));
            }
            Ok(json!({"op":"enc.zone","zone":name,"results":results}))
        }
        _ => Err(format!("unknown enc op {op}")),
    }
}

//! C API histories (C17, C18). Calls are made through the `extern "C"` functions with raw pointers, inside the
//! worker process (a panic across the boundary aborts the process: that is an exit status, observed by the parent).
use crate::absval::{alpha, bits, cps, f64_of, text_of};
use crate::jtree;
use crate::ops_filter::or_json;
use crate::util::{Out, Rng};
use crate::worker::Worker;
use libhaystack::c_api::ResultType;
use libhaystack::c_api::{coord, date, datetime, dict, err, filter, grid, json as cjson, list, number, reference, str as cstr, symbol, time, uri, value, xstr, zinc as czinc};
use libhaystack::filter::Filter;
use libhaystack::val::Value;
use serde_json::{json, Value as J};
use std::collections::BTreeMap;
use std::ffi::{CStr, CString};
use std::os::raw::c_char;

pub struct CState {
    pub handles: BTreeMap<u64, *mut Value>,
    pub filters: BTreeMap<u64, *mut Filter>,
}

impl CState {
    pub fn new() -> CState {
        CState { handles: BTreeMap::new(), filters: BTreeMap::new() }
    }
    fn ptr(&self, id: u64) -> *mut Value {
        if id == 0 {
            std::ptr::null_mut()
        } else {
            *self.handles.get(&id).unwrap_or(&std::ptr::null_mut())
        }
    }
}

enum CStrArg {
    Null,
    Bad(Vec<u8>),
    Good(CString),
}

impl CStrArg {
    fn ptr(&self) -> *const c_char {
        match self {
            CStrArg::Null => std::ptr::null(),
            CStrArg::Bad(b) => b.as_ptr() as *const c_char,
            CStrArg::Good(c) => c.as_ptr(),
        }
    }
}

fn str_arg(j: &J) -> CStrArg {
    if j["some"].as_bool() == Some(true) {
        match text_of(&j["s"]).ok().and_then(|s| CString::new(s).ok()) {
            Some(c) => CStrArg::Good(c),
            None => CStrArg::Null,
        }
    } else if j["why"] == "badutf8" {
        CStrArg::Bad(vec![0x61, 0xff, 0xfe, 0])
    } else {
        CStrArg::Null
    }
}

fn res_json(r: ResultType) -> J {
    json!({"r":"res","v": match r { ResultType::ERR => -1, ResultType::FALSE => 0, ResultType::TRUE => 1 }})
}

unsafe fn take_str(p: *const c_char, outstanding: &mut Vec<*mut c_char>) -> J {
    if p.is_null() {
        json!({"r":"null"})
    } else {
        let s = CStr::from_ptr(p).to_string_lossy().to_string();
        outstanding.push(p as *mut c_char);
        json!({"r":"str","s":cps(&s)})
    }
}

fn usize_json(n: usize) -> J {
    if n == usize::MAX {
        json!({"r":"max"})
    } else {
        json!({"r":"int","n":n})
    }
}
fn u32_json(n: u32) -> J {
    if n == u32::MAX {
        json!({"r":"max"})
    } else {
        json!({"r":"int","n":n})
    }
}
fn f64_json(f: f64) -> J {
    json!({"r":"f64","bits":bits(f)})
}

/// defaults for every field the specification reads
pub fn normalise(c: &J) -> J {
    let mut n = json!({"fn":"","h":0,"h2":0,"idx":0,"s":{"some":false,"why":"null","s":[]},"s2":{"some":false,"why":"null","s":[]},
        "f1":"0x0000000000000000","f2":"0x0000000000000000","b":false,"n1":0,"n2":0,"n3":0,"n4":0,"fid":0,"newh":0,"newf":0,"slot":true,
        "tree":{"j":"none"},"unitKnown":false,"unitSymbol":[],"zoneKnown":false,"zoneOff":0});
    if let Some(o) = c.as_object() {
        for (k, v) in o {
            n[k] = v.clone();
        }
    }
    for k in ["s", "s2"] {
        if n[k].get("s").is_none() {
            n[k]["s"] = json!([]);
        }
        if n[k].get("why").is_none() {
            n[k]["why"] = json!("none");
        }
    }
    n
}

/// executes one call; returns the event (without "op"/"monitor")
pub unsafe fn exec(st: &mut CState, strings: &mut Vec<*mut c_char>, c0: &J) -> J {
    let mut c = normalise(c0);
    let name = c["fn"].as_str().unwrap_or("").to_string();
    let h = c["h"].as_u64().unwrap_or(0);
    let h2 = c["h2"].as_u64().unwrap_or(0);
    let idx = c["idx"].as_u64().unwrap_or(0) as usize;
    let newh = c["newh"].as_u64().unwrap_or(0);
    let p = st.ptr(h);
    let p2 = st.ptr(h2);
    let s = str_arg(&c["s"]);
    let s2 = str_arg(&c["s2"]);
    let f1 = f64_of(&c["f1"]).unwrap_or(0.0);
    let f2 = f64_of(&c["f2"]).unwrap_or(0.0);
    let b = c["b"].as_bool().unwrap_or(false);
    let n = |k: &str| c[k].as_i64().unwrap_or(0);
    let (n1, n2, n3, n4) = (n("n1"), n("n2"), n("n3"), n("n4"));
    let mut extra = json!({});
    let mut new_value = |st: &mut CState, b: Option<Box<Value>>| -> J {
        match b {
            Some(bx) => {
                st.handles.insert(newh, Box::into_raw(bx));
                json!({"r":"handle","h":newh})
            }
            None => json!({"r":"null"}),
        }
    };
    let short = name.trim_start_matches("haystack_value_").to_string();
    let ret: J = match short.as_str() {
        "init" => new_value(st, Some(value::haystack_value_init())),
        "make_marker" => new_value(st, Some(value::haystack_value_make_marker())),
        "make_na" => new_value(st, Some(value::haystack_value_make_na())),
        "make_remove" => new_value(st, Some(value::haystack_value_make_remove())),
        "make_list" => new_value(st, Some(value::haystack_value_make_list())),
        "make_dict" => new_value(st, Some(value::haystack_value_make_dict())),
        "make_grid" => new_value(st, Some(value::haystack_value_make_grid())),
        "make_bool" => new_value(st, Some(value::haystack_value_make_bool(b))),
        "make_number" => new_value(st, Some(value::haystack_value_make_number(f1))),
        "make_coord" => new_value(st, Some(value::haystack_value_make_coord(f1, f2))),
        "make_number_with_unit" => {
            if let CStrArg::Good(u) = &s {
                if let Some(unit) = libhaystack::units::get_unit(u.to_str().unwrap_or("")) {
                    c["unitKnown"] = json!(true);
                    c["unitSymbol"] = cps(unit.symbol());
                }
            }
            new_value(st, value::haystack_value_make_number_with_unit(f1, s.ptr()))
        }
        "make_str" => new_value(st, value::haystack_value_make_str(s.ptr())),
        "make_ref" => new_value(st, value::haystack_value_make_ref(s.ptr())),
        "make_uri" => new_value(st, value::haystack_value_make_uri(s.ptr())),
        "make_symbol" => new_value(st, value::haystack_value_make_symbol(s.ptr())),
        "make_ref_with_dis" => new_value(st, value::haystack_value_make_ref_with_dis(s.ptr(), s2.ptr())),
        "make_xstr" => new_value(st, value::haystack_value_make_xstr(s.ptr(), s2.ptr())),
        "make_time" => new_value(st, value::haystack_value_make_time(n1 as u32, n2 as u32, n3 as u32)),
        "make_time_millis" => new_value(st, value::haystack_value_make_time_millis(n1 as u32, n2 as u32, n3 as u32, n4 as u32)),
        "make_date" => new_value(st, value::haystack_value_make_date(n1 as i32, n2 as u32, n3 as u32)),
        "make_utc_datetime" => new_value(st, value::haystack_value_make_utc_datetime(p, p2)),
        "make_tz_datetime" => {
            // oracle facts about the zone, from chrono-tz directly
            if let (CStrArg::Good(z), Some(Value::Date(d)), Some(Value::Time(t))) = (&s, p.as_ref(), p2.as_ref()) {
                use chrono::{Offset, TimeZone};
                let name = z.to_str().unwrap_or("");
                let tz = chrono_tz::TZ_VARIANTS.iter().find(|t| t.name() == name || crate::gen::short_name(t.name()) == name);
                if let Some(tz) = tz {
                    let naive = chrono::NaiveDateTime::new(**d, **t);
                    c["zoneKnown"] = json!(true);
                    c["zoneOff"] = json!(tz.offset_from_utc_datetime(&naive).fix().local_minus_utc());
                }
            }
            new_value(st, value::haystack_value_make_tz_datetime(p, p2, s.ptr()))
        }
        "is_null" => json!({"r":"bool","b":value::haystack_value_is_null(p)}),
        "is_marker" => json!({"r":"bool","b":value::haystack_value_is_marker(p)}),
        "is_na" => json!({"r":"bool","b":value::haystack_value_is_na(p)}),
        "is_remove" => json!({"r":"bool","b":value::haystack_value_is_remove(p)}),
        "is_bool" => json!({"r":"bool","b":value::haystack_value_is_bool(p)}),
        "is_number" => json!({"r":"bool","b":value::haystack_value_is_number(p)}),
        "is_coord" => json!({"r":"bool","b":value::haystack_value_is_coord(p)}),
        "is_str" => json!({"r":"bool","b":value::haystack_value_is_str(p)}),
        "is_ref" => json!({"r":"bool","b":value::haystack_value_is_ref(p)}),
        "is_uri" => json!({"r":"bool","b":value::haystack_value_is_uri(p)}),
        "is_symbol" => json!({"r":"bool","b":value::haystack_value_is_symbol(p)}),
        "is_xstr" => json!({"r":"bool","b":value::haystack_value_is_xstr(p)}),
        "is_time" => json!({"r":"bool","b":value::haystack_value_is_time(p)}),
        "is_date" => json!({"r":"bool","b":value::haystack_value_is_date(p)}),
        "is_datetime" => json!({"r":"bool","b":value::haystack_value_is_datetime(p)}),
        "is_list" => json!({"r":"bool","b":value::haystack_value_is_list(p)}),
        "is_dict" => json!({"r":"bool","b":value::haystack_value_is_dict(p)}),
        "is_grid" => json!({"r":"bool","b":value::haystack_value_is_grid(p)}),
        "get_number_value" => f64_json(number::haystack_value_get_number_value(p)),
        "number_has_unit" => res_json(number::haystack_value_number_has_unit(p)),
        "get_number_unit" => take_str(number::haystack_value_get_number_unit(p), strings),
        "get_coord_lat" => f64_json(coord::haystack_value_get_coord_lat(p)),
        "get_coord_long" => f64_json(coord::haystack_value_get_coord_long(p)),
        "get_date_year" => u32_json(date::haystack_value_get_date_year(p)),
        "get_date_month" => u32_json(date::haystack_value_get_date_month(p)),
        "get_date_day" => u32_json(date::haystack_value_get_date_day(p)),
        "get_time_hour" => u32_json(time::haystack_value_get_time_hour(p)),
        "get_time_minutes" => u32_json(time::haystack_value_get_time_minutes(p)),
        "get_time_seconds" => u32_json(time::haystack_value_get_time_seconds(p)),
        "get_time_millis" => u32_json(time::haystack_value_get_time_millis(p)),
        "get_datetime_date" => res_json(datetime::haystack_value_get_datetime_date(p, b, p2)),
        "get_datetime_time" => res_json(datetime::haystack_value_get_datetime_time(p, b, p2)),
        "get_datetime_timezone" => take_str(datetime::haystack_value_get_datetime_timezone(p), strings),
        "get_str_len" => usize_json(cstr::haystack_value_get_str_len(p)),
        "get_str_value" => take_str(cstr::haystack_value_get_str_value(p), strings),
        "get_ref_value_len" => usize_json(reference::haystack_value_get_ref_value_len(p)),
        "get_ref_value" => take_str(reference::haystack_value_get_ref_value(p), strings),
        "get_ref_dis" => take_str(reference::haystack_value_get_ref_dis(p), strings),
        "get_symbol_value_len" => usize_json(symbol::haystack_value_get_symbol_value_len(p)),
        "get_symbol_value" => take_str(symbol::haystack_value_get_symbol_value(p), strings),
        "get_uri_value_len" => usize_json(uri::haystack_value_get_uri_value_len(p)),
        "get_uri_value" => take_str(uri::haystack_value_get_uri_value(p), strings),
        "get_xstr_type" => take_str(xstr::haystack_value_get_xstr_type(p), strings),
        "get_xstr_value" => take_str(xstr::haystack_value_get_xstr_value(p), strings),
        "get_list_len" => usize_json(list::haystack_value_get_list_len(p)),
        "push_list_entry" => res_json(list::haystack_value_push_list_entry(p, p2)),
        "get_list_entry_at" => {
            let mut slot: *const Value = std::ptr::null();
            let r = list::haystack_value_get_list_entry_at(p, idx, if c["slot"].as_bool() == Some(false) { std::ptr::null_mut() } else { &mut slot });
            let mut j = res_json(r);
            if let Some(v) = slot.as_ref() {
                j["entry"] = alpha(v); // borrowed pointer used at once, while its container is alive and unmodified
            }
            j
        }
        "set_list_entry_at" => res_json(list::haystack_value_set_list_entry_at(p, idx, p2)),
        "remove_list_entry_at" => res_json(list::haystack_value_remove_list_entry_at(p, idx)),
        "get_dict_len" => usize_json(dict::haystack_value_get_dict_len(p)),
        "get_dict_keys" => res_json(dict::haystack_value_get_dict_keys(p, p2)),
        "insert_dict_entry" => res_json(dict::haystack_value_insert_dict_entry(p, s.ptr(), p2)),
        "get_dict_entry" => {
            let mut slot: *const Value = std::ptr::null();
            let r = dict::haystack_value_get_dict_entry(p, s.ptr(), if c["slot"].as_bool() == Some(false) { std::ptr::null_mut() } else { &mut slot });
            let mut j = res_json(r);
            if let Some(v) = slot.as_ref() {
                j["entry"] = alpha(v);
            }
            j
        }
        "remove_dict_entry" => res_json(dict::haystack_value_remove_dict_entry(p, s.ptr())),
        "get_grid_len" => usize_json(grid::haystack_value_get_grid_len(p)),
        "make_grid_from_rows" => new_value(st, grid::haystack_value_make_grid_from_rows(p)),
        "make_grid_from_rows_with_meta" => new_value(st, grid::haystack_value_make_grid_from_rows_with_meta(p, p2)),
        "get_grid_row_at" => res_json(grid::haystack_value_get_grid_row_at(p, idx, p2)),
        "to_zinc_string" => take_str(czinc::haystack_value_to_zinc_string(p), strings),
        "from_zinc_string" => new_value(st, czinc::haystack_value_from_zinc_string(s.ptr())),
        "to_json_string" => {
            let r = take_str(cjson::haystack_value_to_json_string(p), strings);
            if r["r"] == "str" {
                let t = text_of(&r["s"]).unwrap_or_default();
                extra["tree"] = jtree::parse(&t).unwrap_or(json!({"j":"none"}));
            }
            r
        }
        "from_json_string" => {
            // the argument is given as a tree, printed here
            let mut t = String::new();
            jtree::print(&c["tree"], &mut t);
            let cs = CString::new(t).unwrap_or_default();
            let arg = if c["s"]["some"].as_bool() == Some(true) { cs.as_ptr() } else { s.ptr() };
            new_value(st, cjson::haystack_value_from_json_string(arg))
        }
        _ => match name.as_str() {
            "haystack_filter_parse" => {
                let newf = c["newf"].as_u64().unwrap_or(0);
                match filter::haystack_filter_parse(s.ptr()) {
                    Some(f) => {
                        extra["ftree"] = or_json(&f.or);
                        st.filters.insert(newf, Box::into_raw(f));
                        json!({"r":"filter","fid":newf})
                    }
                    None => json!({"r":"null"}),
                }
            }
            "haystack_filter_match_dict" => {
                let f = *st.filters.get(&c["fid"].as_u64().unwrap_or(0)).unwrap_or(&std::ptr::null_mut());
                res_json(filter::haystack_filter_match_dict(f, p))
            }
            "haystack_filter_first_match_in_grid" => {
                let f = *st.filters.get(&c["fid"].as_u64().unwrap_or(0)).unwrap_or(&std::ptr::null_mut());
                res_json(filter::haystack_filter_first_match_in_grid(f, p, p2))
            }
            "haystack_filter_match_all_grid" => {
                let f = *st.filters.get(&c["fid"].as_u64().unwrap_or(0)).unwrap_or(&std::ptr::null_mut());
                res_json(filter::haystack_filter_match_all_grid(f, p, p2))
            }
            "last_error_message" => take_str(err::last_error_message(), strings),
            "haystack_value_destroy" => {
                if let Some(ptr) = st.handles.remove(&h) {
                    value::haystack_value_destroy(ptr);
                }
                json!({"r":"void"})
            }
            "haystack_string_destroy" => {
                if let Some(sp) = strings.pop() {
                    cstr::haystack_string_destroy(sp);
                }
                json!({"r":"void"})
            }
            _ => json!({"r":"unknown"}),
        },
    };
    // projection of every handle the call may have touched
    let mut post = Vec::new();
    for id in [h, h2, newh] {
        if id != 0 {
            if let Some(ptr) = st.handles.get(&id) {
                if !post.iter().any(|x: &J| x[0] == id) {
                    post.push(json!([id, alpha(&**ptr)]));
                }
            }
        }
    }
    let mut ev = json!({"c":c,"ret":ret,"post":post,"tree":{"j":"none"},"ftree":{"ors":[]}});
    if let Some(o) = extra.as_object() {
        for (k, v) in o {
            ev[k] = v.clone();
        }
    }
    ev
}

// ---- worker side: keeps the history state between requests -------------------------------------------------
thread_local! {
    static STATE: std::cell::RefCell<(CState, Vec<*mut c_char>)> = std::cell::RefCell::new((CState::new(), Vec::new()));
}

#[cfg(hs_asan)]
extern "C" {
    fn __lsan_do_recoverable_leak_check() -> std::os::raw::c_int;
}

pub fn worker_capi(req: &J) -> J {
    STATE.with(|s| {
        let mut s = s.borrow_mut();
        match req["w"].as_str().unwrap_or("") {
            "capi.begin" => {
                *s = (CState::new(), Vec::new());
                // the error slot is thread-local state of the library: start every history with it empty
                unsafe {
                    let e = err::last_error_message();
                    if !e.is_null() {
                        cstr::haystack_string_destroy(e as *mut c_char);
                    }
                }
                json!({"ok":true})
            }
            "capi.call" => {
                let (st, strings) = &mut *s;
                unsafe { exec(st, strings, &req["c"]) }
            }
            "capi.live" => {
                let (st, strings) = &*s;
                json!({"handles": st.handles.keys().collect::<Vec<_>>(), "strings": strings.len(), "filters": st.filters.len(),
                       "kinds": st.handles.iter().map(|(k, p)| json!([k, unsafe { alpha(&**p)["k"].clone() }])).collect::<Vec<J>>()})
            }
            "capi.end" => {
                // filters have no destroy function in the C API: released here, outside the accounting
                let (st, _) = &mut *s;
                for (_, f) in std::mem::take(&mut st.filters) {
                    unsafe { drop(Box::from_raw(f)) };
                }
                #[cfg(hs_asan)]
                let leaks = unsafe { __lsan_do_recoverable_leak_check() };
                #[cfg(not(hs_asan))]
                let leaks = 0;
                json!({"asan": if leaks == 0 { "ok" } else { "leak" }, "instrumented": cfg!(hs_asan)})
            }
            "capi.selftest" => {
                // negative controls of the sanitizer monitor (instrumented build only)
                #[cfg(hs_asan)]
                unsafe {
                    match req["kind"].as_str().unwrap_or("") {
                        "leak" => {
                            let b = value::haystack_value_make_list();
                            let p = Box::into_raw(b);
                            std::hint::black_box(p);
                            let _forgotten = p; // never destroyed
                            return json!({"leaks": __lsan_do_recoverable_leak_check()});
                        }
                        "double_destroy" => {
                            let p = Box::into_raw(value::haystack_value_make_list());
                            value::haystack_value_destroy(p);
                            value::haystack_value_destroy(p);
                            return json!({"survived": true});
                        }
                        _ => {}
                    }
                }
                json!({"skipped": true})
            }
            "capi.nullcall" => unsafe { null_call(&req["fn"], req["param"].as_u64().unwrap_or(0) as usize) },
            _ => json!({"error":"unknown request"}),
        }
    })
}

/// calls `fn` with valid arguments except that pointer parameter number `param` is null
unsafe fn null_call(name: &J, param: usize) -> J {
    let name = name.as_str().unwrap_or("");
    let mut st = CState::new();
    let mut strings = Vec::new();
    // valid fixtures
    let setup = |st: &mut CState, strings: &mut Vec<*mut c_char>, c: J| exec(st, strings, &c);
    let t = |s: &str| json!({"some":true,"s":cps(s)});
    setup(&mut st, &mut strings, json!({"fn":"haystack_value_make_list","newh":1}));
    setup(&mut st, &mut strings, json!({"fn":"haystack_value_make_dict","newh":2}));
    setup(&mut st, &mut strings, json!({"fn":"haystack_value_make_number","f1":"0x3ff0000000000000","newh":3}));
    setup(&mut st, &mut strings, json!({"fn":"haystack_value_push_list_entry","h":1,"h2":2}));
    setup(&mut st, &mut strings, json!({"fn":"haystack_value_insert_dict_entry","h":2,"s":t("a"),"h2":3}));
    setup(&mut st, &mut strings, json!({"fn":"haystack_value_make_grid_from_rows","h":1,"newh":4}));
    setup(&mut st, &mut strings, json!({"fn":"haystack_value_make_date","n1":2021,"n2":1,"n3":15,"newh":5}));
    setup(&mut st, &mut strings, json!({"fn":"haystack_value_make_time","n1":1,"n2":2,"n3":3,"newh":6}));
    setup(&mut st, &mut strings, json!({"fn":"haystack_value_make_utc_datetime","h":5,"h2":6,"newh":7}));
    setup(&mut st, &mut strings, json!({"fn":"haystack_value_init","newh":8}));
    setup(&mut st, &mut strings, json!({"fn":"haystack_filter_parse","s":t("a"),"newf":1}));
    let _ = err::last_error_message();
    // per function: the valid call and which fields are its pointer parameters, in order
    let table: Vec<(&str, J, Vec<&str>)> = vec![
        ("haystack_value_make_number_with_unit", json!({"s":t("m"),"newh":9}), vec!["s"]),
        ("haystack_value_make_str", json!({"s":t("x"),"newh":9}), vec!["s"]),
        ("haystack_value_make_ref", json!({"s":t("x"),"newh":9}), vec!["s"]),
        ("haystack_value_make_uri", json!({"s":t("x"),"newh":9}), vec!["s"]),
        ("haystack_value_make_symbol", json!({"s":t("x"),"newh":9}), vec!["s"]),
        ("haystack_value_make_ref_with_dis", json!({"s":t("x"),"s2":t("d"),"newh":9}), vec!["s", "s2"]),
        ("haystack_value_make_xstr", json!({"s":t("X"),"s2":t("d"),"newh":9}), vec!["s", "s2"]),
        ("haystack_value_make_utc_datetime", json!({"h":5,"h2":6,"newh":9}), vec!["h", "h2"]),
        ("haystack_value_make_tz_datetime", json!({"h":5,"h2":6,"s":t("New_York"),"newh":9}), vec!["h", "h2", "s"]),
        ("haystack_value_get_datetime_date", json!({"h":7,"h2":8}), vec!["h", "h2"]),
        ("haystack_value_get_datetime_time", json!({"h":7,"h2":8}), vec!["h", "h2"]),
        ("haystack_value_push_list_entry", json!({"h":1,"h2":3}), vec!["h", "h2"]),
        ("haystack_value_get_list_entry_at", json!({"h":1,"idx":0}), vec!["h", "slot"]),
        ("haystack_value_set_list_entry_at", json!({"h":1,"idx":0,"h2":3}), vec!["h", "h2"]),
        ("haystack_value_remove_list_entry_at", json!({"h":1,"idx":0}), vec!["h"]),
        ("haystack_value_get_dict_keys", json!({"h":2,"h2":8}), vec!["h", "h2"]),
        ("haystack_value_insert_dict_entry", json!({"h":2,"s":t("b"),"h2":3}), vec!["h", "s", "h2"]),
        ("haystack_value_get_dict_entry", json!({"h":2,"s":t("a")}), vec!["h", "s", "slot"]),
        ("haystack_value_remove_dict_entry", json!({"h":2,"s":t("a")}), vec!["h", "s"]),
        ("haystack_value_make_grid_from_rows", json!({"h":1,"newh":9}), vec!["h"]),
        ("haystack_value_make_grid_from_rows_with_meta", json!({"h":1,"h2":2,"newh":9}), vec!["h", "h2"]),
        ("haystack_value_get_grid_row_at", json!({"h":4,"idx":0,"h2":8}), vec!["h", "h2"]),
        ("haystack_value_to_zinc_string", json!({"h":3}), vec!["h"]),
        ("haystack_value_from_zinc_string", json!({"s":t("1"),"newh":9}), vec!["s"]),
        ("haystack_value_to_json_string", json!({"h":3}), vec!["h"]),
        ("haystack_value_from_json_string", json!({"s":{"some":false,"why":"null"},"newh":9}), vec!["s"]),
        ("haystack_filter_parse", json!({"s":t("a"),"newf":2}), vec!["s"]),
        ("haystack_filter_match_dict", json!({"fid":1,"h":2}), vec!["fid", "h"]),
        ("haystack_filter_first_match_in_grid", json!({"fid":1,"h":4,"h2":8}), vec!["fid", "h", "h2"]),
        ("haystack_filter_match_all_grid", json!({"fid":1,"h":4,"h2":8}), vec!["fid", "h", "h2"]),
    ];
    // the single-pointer getters / predicates
    let singles = ["is_null", "is_marker", "is_na", "is_remove", "is_bool", "is_number", "is_coord", "is_str", "is_ref", "is_uri", "is_symbol", "is_xstr",
        "is_time", "is_date", "is_datetime", "is_list", "is_dict", "is_grid", "get_number_value", "number_has_unit", "get_number_unit", "get_coord_lat",
        "get_coord_long", "get_date_year", "get_date_month", "get_date_day", "get_time_hour", "get_time_minutes", "get_time_seconds", "get_time_millis",
        "get_datetime_timezone", "get_str_len", "get_str_value", "get_ref_value_len", "get_ref_value", "get_ref_dis", "get_symbol_value_len",
        "get_symbol_value", "get_uri_value_len", "get_uri_value", "get_xstr_type", "get_xstr_value", "get_list_len", "get_dict_len", "get_grid_len"];
    let (mut call, ptrs): (J, Vec<&str>) = if let Some((_, c, p)) = table.iter().find(|(n, _, _)| *n == name) {
        (c.clone(), p.clone())
    } else if singles.iter().any(|s| format!("haystack_value_{s}") == name) {
        (json!({"h":3}), vec!["h"])
    } else {
        return json!({"error":"no such function in the null matrix"});
    };
    if param >= ptrs.len() {
        return json!({"error":"no such parameter"});
    }
    call["fn"] = json!(name);
    match ptrs[param] {
        "h" => call["h"] = json!(0),
        "h2" => call["h2"] = json!(0),
        "s" => call["s"] = json!({"some":false,"why":"null"}),
        "s2" => call["s2"] = json!({"some":false,"why":"null"}),
        "slot" => call["slot"] = json!(false),
        "fid" => call["fid"] = json!(0),
        _ => {}
    }
    let ev = exec(&mut st, &mut strings, &call);
    let r = &ev["ret"];
    let sentinel = r["r"] == "null" || r["r"] == "max" || (r["r"] == "res" && r["v"] == -1) || (r["r"] == "bool" && r["b"] == false)
        || (r["r"] == "f64" && f64_of(&r["bits"]).map(|f| f.is_nan()).unwrap_or(false));
    let e = err::last_error_message();
    let err_set = !e.is_null();
    if err_set {
        cstr::haystack_string_destroy(e as *mut c_char);
    }
    json!({"fn":name,"param":ptrs[param],"sentinel":sentinel,"err_set":err_set,"nparams":ptrs.len()})
}

pub fn null_matrix() -> Vec<(String, usize)> {
    // (function, number of pointer parameters); kept in step with null_call's tables
    let mut v: Vec<(String, usize)> = vec![
        ("make_number_with_unit", 1), ("make_str", 1), ("make_ref", 1), ("make_uri", 1), ("make_symbol", 1), ("make_ref_with_dis", 2), ("make_xstr", 2),
        ("make_utc_datetime", 2), ("make_tz_datetime", 3), ("get_datetime_date", 2), ("get_datetime_time", 2), ("push_list_entry", 2),
        ("get_list_entry_at", 2), ("set_list_entry_at", 2), ("remove_list_entry_at", 1), ("get_dict_keys", 2), ("insert_dict_entry", 3),
        ("get_dict_entry", 3), ("remove_dict_entry", 2), ("make_grid_from_rows", 1), ("make_grid_from_rows_with_meta", 2), ("get_grid_row_at", 2),
        ("to_zinc_string", 1), ("from_zinc_string", 1), ("to_json_string", 1), ("from_json_string", 1),
    ].into_iter().map(|(n, k)| (format!("haystack_value_{n}"), k)).collect();
    for (n, k) in [("haystack_filter_parse", 1), ("haystack_filter_match_dict", 2), ("haystack_filter_first_match_in_grid", 3), ("haystack_filter_match_all_grid", 3)] {
        v.push((n.to_string(), k));
    }
    for s in ["is_null", "is_marker", "is_na", "is_remove", "is_bool", "is_number", "is_coord", "is_str", "is_ref", "is_uri", "is_symbol", "is_xstr",
        "is_time", "is_date", "is_datetime", "is_list", "is_dict", "is_grid", "get_number_value", "number_has_unit", "get_number_unit", "get_coord_lat",
        "get_coord_long", "get_date_year", "get_date_month", "get_date_day", "get_time_hour", "get_time_minutes", "get_time_seconds", "get_time_millis",
        "get_datetime_timezone", "get_str_len", "get_str_value", "get_ref_value_len", "get_ref_value", "get_ref_dis", "get_symbol_value_len",
        "get_symbol_value", "get_uri_value_len", "get_uri_value", "get_xstr_type", "get_xstr_value", "get_list_len", "get_dict_len", "get_grid_len"] {
        v.push((format!("haystack_value_{s}"), 1));
    }
    v
}

// ---- parent side ------------------------------------------------------------------------------------------------
pub struct Driver {
    pub wk: Worker,
    pub live: Vec<(u64, String)>, // (handle, kind) as the generator believes
    pub strings: usize,
    pub filters: Vec<u64>,
    pub next: u64,
}

fn call_worker(wk: &mut Worker, req: J) -> Result<J, &'static str> {
    wk.call(&req, 5000)
}

impl Driver {
    pub fn new() -> Driver {
        Driver { wk: Worker::new(), live: vec![], strings: 0, filters: vec![], next: 1 }
    }

    pub fn begin(&mut self, out: &mut Out) {
        let _ = call_worker(&mut self.wk, json!({"w":"capi.begin"}));
        self.live.clear();
        self.strings = 0;
        self.filters.clear();
        self.next = 1;
        out.emit(json!({"op":"capi.begin"}));
    }

    /// returns false when the worker died (history over)
    pub fn call(&mut self, out: &mut Out, c: J) -> bool {
        match call_worker(&mut self.wk, json!({"w":"capi.call","c":c})) {
            Ok(mut ev) => {
                ev["op"] = json!("capi");
                ev["monitor"] = json!("ok");
                // track generator-side knowledge
                if ev["ret"]["r"] == "handle" {
                    let id = ev["ret"]["h"].as_u64().unwrap_or(0);
                    let kind = ev["post"].as_array().and_then(|p| p.iter().find(|x| x[0] == id)).map(|x| x[1]["k"].as_str().unwrap_or("").to_string()).unwrap_or_default();
                    self.live.push((id, kind));
                }
                if ev["ret"]["r"] == "filter" {
                    self.filters.push(ev["ret"]["fid"].as_u64().unwrap_or(0));
                }
                if ev["ret"]["r"] == "str" {
                    self.strings += 1;
                }
                let name = ev["c"]["fn"].as_str().unwrap_or("").to_string();
                if name == "haystack_string_destroy" && self.strings > 0 {
                    self.strings -= 1;
                }
                if name == "haystack_value_destroy" {
                    let h = ev["c"]["h"].as_u64().unwrap_or(0);
                    self.live.retain(|(id, _)| *id != h);
                }
                // kinds may change through result slots
                if let Some(post) = ev["post"].as_array() {
                    for p in post {
                        let id = p[0].as_u64().unwrap_or(0);
                        if let Some(e) = self.live.iter_mut().find(|(i, _)| *i == id) {
                            e.1 = p[1]["k"].as_str().unwrap_or("").to_string();
                        }
                    }
                }
                out.emit(ev);
                true
            }
            Err(fatal) => {
                let mut c2 = normalise(&c);
                c2["fn"] = c["fn"].clone();
                out.emit(json!({"op":"capi","c":c2,"ret":{"r":"void"},"post":[],"tree":{"j":"none"},"ftree":{"ors":[]},"monitor":fatal}));
                false
            }
        }
    }

    /// the clean-up suffix of the ownership protocol: every string and every handle destroyed exactly once
    pub fn end(&mut self, out: &mut Out) {
        while self.strings > 0 {
            if !self.call(out, json!({"fn":"haystack_string_destroy"})) {
                return;
            }
        }
        for (h, _) in self.live.clone() {
            if !self.call(out, json!({"fn":"haystack_value_destroy","h":h})) {
                return;
            }
        }
        let r = call_worker(&mut self.wk, json!({"w":"capi.end"})).unwrap_or(json!({"asan":"abort","instrumented":false}));
        out.emit(json!({"op":"capi.end","asan":r["asan"],"instrumented":r["instrumented"]}));
    }

    fn fresh(&mut self) -> u64 {
        let n = self.next;
        self.next += 1;
        n
    }
}

const TEXTS: &[&str] = &["", "a", "x y", "é", "😀", "\"q\"", "back\\slash", "line\nbreak", "$dollar", "tab\tbed"];
const FILTERS: &[&str] = &["a", "not a", "a == 1", "a > 1 and b", "a or b", "( a or b ) and not c", "a->b == \"x\"", "a != @r"];

fn st(s: &str) -> J {
    json!({"some":true,"s":cps(s)})
}

/// one random protocol-respecting history
pub fn random_history(d: &mut Driver, out: &mut Out, rng: &mut Rng, len: usize) {
    d.begin(out);
    let specials = [0.0f64, -0.0, 1.0, -1.5, 1e21, f64::NAN, f64::INFINITY, 123.456];
    for _ in 0..len {
        let pick_h = |d: &Driver, rng: &mut Rng, kind: Option<&str>| -> u64 {
            let c: Vec<u64> = d.live.iter().filter(|(_, k)| kind.map(|x| x == k).unwrap_or(true)).map(|(h, _)| *h).collect();
            if c.is_empty() || rng.chance(1, 12) {
                if rng.chance(1, 3) || d.live.is_empty() { 0 } else { d.live[rng.below(d.live.len())].0 }
            } else {
                c[rng.below(c.len())]
            }
        };
        let text = |rng: &mut Rng| -> J {
            match rng.below(14) {
                0 => json!({"some":false,"why":"null"}),
                1 => json!({"some":false,"why":"badutf8"}),
                _ => st(TEXTS[rng.below(TEXTS.len())]),
            }
        };
        let name = |rng: &mut Rng| -> J {
            match rng.below(12) {
                0 => json!({"some":false,"why":"null"}),
                1 => json!({"some":false,"why":"badutf8"}),
                _ => st((["a", "b", "c", "dis", "id"][rng.below(5)])),
            }
        };
        let f = |rng: &mut Rng| bits(specials[rng.below(specials.len())]);
        let idx = |rng: &mut Rng| rng.below(4);
        let newh = d.fresh();
        let c = match rng.below(40) {
            0 => json!({"fn": (["haystack_value_init","haystack_value_make_marker","haystack_value_make_na","haystack_value_make_remove","haystack_value_make_list","haystack_value_make_dict","haystack_value_make_grid"][rng.below(7)]), "newh":newh}),
            1 => json!({"fn":"haystack_value_make_bool","b":rng.chance(1,2),"newh":newh}),
            2 => json!({"fn":"haystack_value_make_number","f1":f(rng),"newh":newh}),
            3 => json!({"fn":"haystack_value_make_number_with_unit","f1":f(rng),"s": match rng.below(8) {0=>json!({"some":false,"why":"null"}),1=>st("nounit"),2=>json!({"some":false,"why":"badutf8"}),3=>st("meter"),4=>st("°F"),_=>st((["m","kW","%","$","ft/min"][rng.below(5)]))},"newh":newh}),
            4 => json!({"fn":"haystack_value_make_coord","f1":f(rng),"f2":f(rng),"newh":newh}),
            5 => json!({"fn":(["haystack_value_make_str","haystack_value_make_ref","haystack_value_make_uri","haystack_value_make_symbol"][rng.below(4)]),"s":text(rng),"newh":newh}),
            6 => json!({"fn":(["haystack_value_make_ref_with_dis","haystack_value_make_xstr"][rng.below(2)]),"s":text(rng),"s2":text(rng),"newh":newh}),
            7 => json!({"fn":"haystack_value_make_time","n1":([0,12,23,24][rng.below(4)]),"n2":([0,30,59,60][rng.below(4)]),"n3":([0,59,61][rng.below(3)]),"newh":newh}),
            8 => json!({"fn":"haystack_value_make_time_millis","n1":rng.below(24),"n2":rng.below(60),"n3":rng.below(60),"n4":([0,1,999,1000][rng.below(4)]),"newh":newh}),
            9 => json!({"fn":"haystack_value_make_date","n1":([0,1999,2021,2024,9999][rng.below(5)]),"n2":([1,2,12,13,0][rng.below(5)]),"n3":([1,28,29,30,31,32][rng.below(6)]),"newh":newh}),
            10 => json!({"fn":"haystack_value_make_utc_datetime","h":pick_h(d,rng,Some("date")),"h2":pick_h(d,rng,Some("time")),"newh":newh}),
            11 => json!({"fn":"haystack_value_make_tz_datetime","h":pick_h(d,rng,Some("date")),"h2":pick_h(d,rng,Some("time")),"s": match rng.below(6) {0=>json!({"some":false,"why":"null"}),1=>st("Nowhere"),_=>st((["New_York","London","Kolkata","UTC","Sydney"][rng.below(5)]))},"newh":newh}),
            12 => json!({"fn": format!("haystack_value_{}", (["is_null","is_marker","is_na","is_remove","is_bool","is_number","is_coord","is_str","is_ref","is_uri","is_symbol","is_xstr","is_time","is_date","is_datetime","is_list","is_dict","is_grid"][rng.below(18)])),"h":pick_h(d,rng,None)}),
            13 | 14 => {
                let g = ["get_number_value","number_has_unit","get_number_unit","get_coord_lat","get_coord_long","get_date_year","get_date_month","get_date_day","get_time_hour","get_time_minutes","get_time_seconds","get_time_millis","get_datetime_timezone","get_str_len","get_str_value","get_ref_value_len","get_ref_value","get_ref_dis","get_symbol_value_len","get_symbol_value","get_uri_value_len","get_uri_value","get_xstr_type","get_xstr_value","get_list_len","get_dict_len","get_grid_len"];
                let k = g[rng.below(g.len())];
                let kind = if k.contains("number") { "num" } else if k.contains("coord") { "coord" } else if k.contains("datetime") { "dt" } else if k.contains("date") { "date" } else if k.contains("time") { "time" } else if k.contains("str_") || k.ends_with("str_len") { "str" } else if k.contains("ref") { "ref" } else if k.contains("symbol") { "symbol" } else if k.contains("uri") { "uri" } else if k.contains("xstr") { "xstr" } else if k.contains("list") { "list" } else if k.contains("dict") { "dict" } else { "grid" };
                json!({"fn":format!("haystack_value_{k}"),"h":pick_h(d,rng,Some(kind))})
            }
            15 => json!({"fn":(["haystack_value_get_datetime_date","haystack_value_get_datetime_time"][rng.below(2)]),"h":pick_h(d,rng,Some("dt")),"b":rng.chance(1,2),"h2":pick_h(d,rng,None)}),
            16 | 17 | 18 => json!({"fn":"haystack_value_push_list_entry","h":pick_h(d,rng,Some("list")),"h2":pick_h(d,rng,None)}),
            19 => json!({"fn":"haystack_value_get_list_entry_at","h":pick_h(d,rng,Some("list")),"idx":idx(rng),"slot":!rng.chance(1,10)}),
            20 | 21 => json!({"fn":"haystack_value_set_list_entry_at","h":pick_h(d,rng,Some("list")),"idx":idx(rng),"h2":pick_h(d,rng,None)}),
            22 => json!({"fn":"haystack_value_remove_list_entry_at","h":pick_h(d,rng,Some("list")),"idx":idx(rng)}),
            23 => json!({"fn":"haystack_value_get_dict_keys","h":pick_h(d,rng,Some("dict")),"h2":pick_h(d,rng,None)}),
            24 | 25 | 26 => json!({"fn":"haystack_value_insert_dict_entry","h":pick_h(d,rng,Some("dict")),"s":name(rng),"h2":pick_h(d,rng,None)}),
            27 => json!({"fn":"haystack_value_get_dict_entry","h":pick_h(d,rng,Some("dict")),"s":name(rng),"slot":!rng.chance(1,10)}),
            28 => json!({"fn":"haystack_value_remove_dict_entry","h":pick_h(d,rng,Some("dict")),"s":name(rng)}),
            29 => json!({"fn":"haystack_value_make_grid_from_rows","h":pick_h(d,rng,Some("list")),"newh":newh}),
            30 => json!({"fn":"haystack_value_make_grid_from_rows_with_meta","h":pick_h(d,rng,Some("list")),"h2":pick_h(d,rng,Some("dict")),"newh":newh}),
            31 => json!({"fn":"haystack_value_get_grid_row_at","h":pick_h(d,rng,Some("grid")),"idx":idx(rng),"h2":pick_h(d,rng,None)}),
            32 => json!({"fn":(["haystack_value_to_zinc_string","haystack_value_to_json_string"][rng.below(2)]),"h":pick_h(d,rng,None)}),
            33 => json!({"fn":"haystack_value_from_zinc_string","s": match rng.below(8) {0=>json!({"some":false,"why":"null"}),1=>json!({"some":false,"why":"badutf8"}),2=>st("[1,"),3=>st("\"unterminated"),_=>st(["1kW","[1,\"x\",{a b:2}]","ver:\"3.0\"\na,b\n1,\"x\"\n","{a:M}","@r \"d\"","2021-01-15","`u`","NaN"][rng.below(8)])},"newh":newh}),
            34 => {
                let trees = [r#"{"_kind":"number","val":1,"unit":"m"}"#, r#"[1,"x",{"a":{"_kind":"marker"}}]"#, r#"{"_kind":"grid","meta":{"ver":"3.0"},"cols":[{"name":"a"}],"rows":[{"a":1}]}"#, r#"{"_kind":"bogus"}"#, r#"{"_kind":"number","val":"x"}"#, r#"{"_kind":"x\u0000y"}"#, "null", r#"{"a":1,"b":[true]}"#];
                let t = trees[rng.below(trees.len())];
                json!({"fn":"haystack_value_from_json_string","s":{"some":true,"s":[]},"tree":jtree::parse(t).unwrap_or(json!({"j":"null"})),"newh":newh})
            }
            35 => {
                let newf = d.filters.len() as u64 + 1;
                json!({"fn":"haystack_filter_parse","s": match rng.below(8) {0=>json!({"some":false,"why":"null"}),1=>st("a =="),2=>json!({"some":false,"why":"badutf8"}),_=>st(FILTERS[rng.below(FILTERS.len())])},"newf":newf})
            }
            36 => json!({"fn":"haystack_filter_match_dict","fid": if d.filters.is_empty() || rng.chance(1,10) {0} else {d.filters[rng.below(d.filters.len())]},"h":pick_h(d,rng,Some("dict"))}),
            37 => json!({"fn":(["haystack_filter_first_match_in_grid","haystack_filter_match_all_grid"][rng.below(2)]),"fid": if d.filters.is_empty() || rng.chance(1,10) {0} else {d.filters[rng.below(d.filters.len())]},"h":pick_h(d,rng,Some("grid")),"h2":pick_h(d,rng,None)}),
            38 => json!({"fn":"last_error_message"}),
            _ => {
                if !d.live.is_empty() && rng.chance(1, 2) {
                    let h = d.live[rng.below(d.live.len())].0;
                    json!({"fn":"haystack_value_destroy","h":h})
                } else if d.strings > 0 {
                    json!({"fn":"haystack_string_destroy"})
                } else {
                    json!({"fn":"last_error_message"})
                }
            }
        };
        // result slots must be distinct from the source container (aliasing &mut is outside the protocol)
        let fnn = c["fn"].as_str().unwrap_or("");
        if ["haystack_value_get_dict_keys", "haystack_value_get_grid_row_at", "haystack_value_get_datetime_date", "haystack_value_get_datetime_time", "haystack_filter_first_match_in_grid", "haystack_filter_match_all_grid", "haystack_value_push_list_entry", "haystack_value_set_list_entry_at", "haystack_value_insert_dict_entry"].contains(&fnn) && c["h"] == c["h2"] && c["h"] != 0 {
            continue;
        }
        if !d.call(out, c) {
            return;
        }
        // probe the error slot after most calls so that "sentinel without error" and "error without sentinel" are seen
        if rng.chance(2, 3) && !d.call(out, json!({"fn":"last_error_message"})) {
            return;
        }
    }
    d.end(out);
}

pub fn rec(out: &mut Out, seed: u64, n: usize, len: usize) {
    let mut rng = Rng::new(seed);
    let mut d = Driver::new();
    for _ in 0..n {
        random_history(&mut d, out, &mut rng, len);
    }
    // negative controls of the sanitizer monitor
    if std::env::var("HS_ASAN_SELFTEST").is_ok() {
        let leak = d.wk.call(&json!({"w":"capi.selftest","kind":"leak"}), 20000);
        let dd = d.wk.call(&json!({"w":"capi.selftest","kind":"double_destroy"}), 20000);
        out.emit(json!({"op":"capi.selftest","leak_detected": matches!(&leak, Ok(j) if j["leaks"].as_i64().unwrap_or(0) != 0),
            "double_destroy_detected": dd.is_err(), "skipped": matches!(&leak, Ok(j) if j.get("skipped").is_some())}));
    }
    // null matrix
    for (name, k) in null_matrix() {
        for p in 0..k {
            let r = d.wk.call(&json!({"w":"capi.nullcall","fn":name,"param":p}), 5000);
            match r {
                Ok(j) if j.get("error").is_none() => out.emit(json!({"op":"capi.null","fn":j["fn"],"param":j["param"],"sentinel":j["sentinel"],"err_set":j["err_set"],"monitor":"ok"})),
                Ok(j) => {
                    eprintln!("TOOL-ERROR: null matrix {name} {p}: {j}");
                    std::process::exit(2);
                }
                Err(fatal) => out.emit(json!({"op":"capi.null","fn":name,"param":p.to_string(),"sentinel":false,"err_set":false,"monitor":fatal})),
            }
        }
    }
}

/// replay of a recorded history prefix: list of calls
pub fn run(vec: &J, out: &mut Out) -> Result<(), String> {
    match vec["op"].as_str().unwrap_or("") {
        "capi.history" => {
            let mut d = Driver::new();
            d.begin(out);
            for c in vec["calls"].as_array().ok_or("calls")? {
                if !d.call(out, c.clone()) {
                    return Ok(());
                }
            }
            d.end(out);
            Ok(())
        }
        _ => Err("unknown capi op".into()),
    }
}

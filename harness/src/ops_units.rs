//! Unit database operations (C15, C16).
use crate::absval::{alpha, bits, cps, text_of};
use crate::gen::all_units;
use crate::util::{guarded, short, Out, Rng};
use libhaystack::encoding::zinc;
use libhaystack::units::{get_unit, Unit};
use libhaystack::val::{Number, Value};
use serde_json::{json, Value as J};

fn dim_json(u: &Unit) -> J {
    match &u.dimensions {
        Some(d) => json!({"kg":d.kg,"m":d.m,"sec":d.sec,"K":d.k,"A":d.a,"mol":d.mol,"cd":d.cd}),
        None => json!({"kg":0,"m":0,"sec":0,"K":0,"A":0,"mol":0,"cd":0}),
    }
}

fn unit_json(u: &Unit) -> J {
    json!({"ids":u.ids.iter().map(|i| cps(i)).collect::<Vec<J>>(),"dim":dim_json(u),"scale":bits(u.scale),"offset":bits(u.offset),
           "q":u.quantity.clone().unwrap_or_default()})
}

pub fn lookup_event(id: &str) -> J {
    match guarded(|| get_unit(id)) {
        Ok(Some(u)) => json!({"op":"units.lookup","id":cps(id),"outcome":"found","unit":unit_json(u)}),
        Ok(None) => json!({"op":"units.lookup","id":cps(id),"outcome":"none","unit":{"ids":[],"dim":{"kg":0,"m":0,"sec":0,"K":0,"A":0,"mol":0,"cd":0},"scale":"0x0","offset":"0x0","q":""}}),
        Err(p) => json!({"op":"units.lookup","id":cps(id),"outcome":"panic","msg":short(&p),"unit":{"ids":[],"dim":{"kg":0,"m":0,"sec":0,"K":0,"A":0,"mol":0,"cd":0},"scale":"0x0","offset":"0x0","q":""}}),
    }
}

fn rt(v: &Value, json_codec: bool) -> J {
    let r = guarded(|| -> Result<Value, String> {
        if json_codec {
            let t = serde_json::to_string(v).map_err(|e| e.to_string())?;
            serde_json::from_str::<Value>(&t).map_err(|e| e.to_string())
        } else {
            let t = zinc::encode::to_zinc_string(v).map_err(|e| e.to_string())?;
            zinc::decode::from_str(&t).map_err(|e| e.to_string())
        }
    });
    match r {
        Ok(Ok(b)) => json!({"outcome":"ok","back":alpha(&b),"msg":""}),
        Ok(Err(e)) => json!({"outcome":"err","back":{"k":"null"},"msg":short(&e)}),
        Err(p) => json!({"outcome":"panic","back":{"k":"null"},"msg":short(&p)}),
    }
}

const MAGS: &[f64] = &[0.0, 1.0, -1.0, -1.5, 0.001, 1e21, 12345.678e-9];
const CONV_X: &[f64] = &[0.0, 1.0, -40.0, 1000.5];

pub fn run(vec: &J, out: &mut Out) -> Result<(), String> {
    match vec["op"].as_str().unwrap_or("") {
        "units.unit" => {
            // every identifier of the unit the specification enumerated; the unit x magnitudes through both codecs
            let ids: Vec<String> = vec["ids"].as_array().ok_or("ids")?.iter().map(text_of).collect::<Result<_, _>>()?;
            for id in &ids {
                out.emit(lookup_event(id));
                // near misses: case flip, dropped character, trailing space (only if not themselves identifiers: the spec decides)
                let mut near: Vec<String> = vec![format!("{id} "), format!(" {id}"), id.to_uppercase(), id.to_lowercase()];
                if id.chars().count() > 1 {
                    near.push(id.chars().skip(1).collect());
                    near.push(id.chars().take(id.chars().count() - 1).collect());
                }
                near.push(format!("{id}x"));
                // look-alike respellings: each character that has a Unicode twin / compatibility form replaced by it (micro
                // sign - Greek mu, ohm sign - Greek omega, degree - ordinal / ring, superscripts - digits, increment - delta,
                // underscore - space / hyphen, slash - division slash, full-width ASCII), one substitution class at a time
                const TWINS: &[(char, &[char])] = &[
                    ('\u{b5}', &['\u{3bc}']), ('\u{3bc}', &['\u{b5}']), ('\u{2126}', &['\u{3a9}']), ('\u{3a9}', &['\u{2126}']),
                    ('\u{b0}', &['\u{ba}', '\u{2da}']), ('\u{b2}', &['2']), ('\u{b3}', &['3']), ('2', &['\u{b2}']), ('3', &['\u{b3}']),
                    ('\u{394}', &['\u{2206}']), ('\u{2206}', &['\u{394}']), ('_', &[' ', '-']), ('/', &['\u{2215}', '\u{2044}']),
                    ('$', &['\u{ff04}']), ('%', &['\u{ff05}']), ('\u{20ac}', &['E']), ('\u{a3}', &['\u{20a4}']),
                    ('\u{2082}', &['2']), ('\u{e9}', &['e']),
                ];
                for (from, tos) in TWINS {
                    if id.contains(*from) {
                        for to in tos.iter() {
                            near.push(id.replace(*from, &to.to_string()));
                        }
                    }
                }
                if id.is_ascii() && !id.is_empty() {
                    // full-width form of the first character
                    let mut cs: Vec<char> = id.chars().collect();
                    if let Some(fw) = char::from_u32(cs[0] as u32 + 0xfee0) {
                        cs[0] = fw;
                        near.push(cs.into_iter().collect());
                    }
                }
                for n in near {
                    if &n != id {
                        out.emit(lookup_event(&n));
                    }
                }
            }
            if let Some(u) = ids.last().and_then(|s| get_unit(s)) {
                for m in MAGS {
                    let v = Value::Number(Number { value: *m, unit: Some(u) });
                    out.emit(json!({"op":"units.codec","v":alpha(&v),"zinc":rt(&v, false),"json":rt(&v, true)}));
                }
            }
            Ok(())
        }
        _ => Err("unknown units op".into()),
    }
}

/// REC: conversions and products over all ordered pairs (one event per source unit), Number arithmetic, random lookups
pub fn rec(out: &mut Out, seed: u64, full: bool) {
    let mut rng = Rng::new(seed);
    let units = all_units();
    let sym = |u: &Unit| cps(u.symbol());
    for (ia, a) in units.iter().enumerate() {
        // units with an offset (and every unit of their dimension) get every magnitude, zero and minus zero included, in
        // both tiers: the affine part of the formula only shows where offsets differ, and only at some magnitudes
        let affine = units.iter().any(|u| u.offset != 0.0 && u.dimensions == a.dimensions);
        let xs: Vec<f64> = if full || affine {
            let mut v = CONV_X.to_vec();
            v.push(-0.0);
            v
        } else {
            vec![CONV_X[(ia + seed as usize) % CONV_X.len()]]
        };
        for x in xs {
            let mut results = Vec::new();
            for b in units.iter() {
                match guarded(|| a.convert_to(x, b)) {
                    Ok(Ok(r)) => {
                        let back = match guarded(|| b.convert_to(r, a)) {
                            Ok(Ok(y)) => json!(["ok", bits(y)]),
                            Ok(Err(_)) => json!(["err", "0x0"]),
                            Err(_) => json!(["panic", "0x0"]),
                        };
                        results.push(json!([sym(b), "ok", bits(r), back]));
                    }
                    Ok(Err(_)) => results.push(json!([sym(b), "err", "0x0", ["skipped", "0x0"]])),
                    Err(_) => results.push(json!([sym(b), "panic", "0x0", ["skipped", "0x0"]])),
                }
            }
            out.emit(json!({"op":"units.conv","a":sym(a),"x":bits(x),"results":results}));
        }
        let mut md = Vec::new();
        for b in units.iter() {
            let f = |r: Result<Result<&'static Unit, String>, String>| match r {
                Ok(Ok(u)) => json!(["ok", cps(u.symbol())]),
                Ok(Err(_)) => json!(["err", []]),
                Err(_) => json!(["panic", []]),
            };
            let m = f(guarded(|| *a * *b));
            let d = f(guarded(|| *a / *b));
            if m[0] != "err" || d[0] != "err" {
                md.push(json!([sym(b), m, d]));
            }
        }
        out.emit(json!({"op":"units.muldiv","a":sym(a),"results":md,"pairs":units.len()}));
        // Number + and - of this unit with every unit: which sums are accepted, and the unit they carry
        let mut accepted = Vec::new();
        for b in units.iter() {
            let (na, nb) = (Number { value: 3.0, unit: Some(*a) }, Number { value: 2.0, unit: Some(*b) });
            for (name, r) in [("add", guarded(|| na + nb)), ("sub", guarded(|| na - nb))] {
                match r {
                    Ok(Ok(n)) => accepted.push(json!([sym(b), name, "ok", n.unit.map(|u| sym(u)).unwrap_or(json!([]))])),
                    Ok(Err(_)) => {}
                    Err(_) => accepted.push(json!([sym(b), name, "panic", []])),
                }
            }
        }
        out.emit(json!({"op":"units.addsub","a":sym(a),"accepted":accepted,"pairs":units.len()}));
    }
    // Number arithmetic over a few units x magnitudes
    let pick: Vec<Option<&'static Unit>> = vec![None, get_unit("m"), get_unit("s"), get_unit("kWh"), get_unit("h"), get_unit("°F"), get_unit("kW")];
    let mags = [0.0, 1.0, -1.5, 1000.5, 1e21, 0.001];
    for ua in &pick {
        for ub in &pick {
            for (k, x) in mags.iter().enumerate() {
                let y = mags[(k * 7 + 3) % mags.len()];
                let (na, nb) = (Number { value: *x, unit: *ua }, Number { value: y, unit: *ub });
                let mut ops = Vec::new();
                for (name, r) in [("add", guarded(|| na + nb)), ("sub", guarded(|| na - nb)), ("mul", guarded(|| na * nb)), ("div", guarded(|| na / nb))] {
                    ops.push(match r {
                        Ok(Ok(n)) => json!([name, "ok", alpha(&Value::Number(n))]),
                        Ok(Err(_)) => json!([name, "err", {"k":"null"}]),
                        Err(_) => json!([name, "panic", {"k":"null"}]),
                    });
                }
                out.emit(json!({"op":"units.arith","a":alpha(&Value::Number(na)),"b":alpha(&Value::Number(nb)),"ops":ops}));
            }
        }
    }
    // random strings that are (almost surely) no identifier
    let alphabet: Vec<char> = "abcdefgkmstuvwxyzABCFKMW_/%$°µ²³ 0123".chars().collect();
    for _ in 0..(if full { 20000 } else { 2000 }) {
        let n = rng.below(8);
        let s: String = (0..n).map(|_| alphabet[rng.below(alphabet.len())]).collect();
        out.emit(lookup_event(&s));
    }
}

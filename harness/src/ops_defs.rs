//! Defs namespace operations (C13; C14 reuses the query projection).
use crate::absval::{cps, tags, text_of};
use crate::util::{Out, Rng};
use libhaystack::defs::namespace::{DefDict, Namespace, DEFAULT_NS};
use libhaystack::filter::{Filter, Filtered};
use libhaystack::filter::eval::EvalContext;
use libhaystack::filter::Eval;
use libhaystack::val::*;
use serde_json::{json, Value as J};

fn names(defs: &[&Dict]) -> J {
    J::Array(defs.iter().map(|d| cps(d.def_name())).collect())
}
fn names_owned(defs: &[Dict]) -> J {
    J::Array(defs.iter().map(|d| cps(d.def_name())).collect())
}

/// the defs grid projected to (def name, symbol names of its `is` list)
pub fn load_event(grid: &Grid) -> J {
    let rows: Vec<J> = grid
        .rows
        .iter()
        .filter_map(|r| {
            r.get_symbol("def").map(|d| {
                let is: Vec<J> = r
                    .get_list("is")
                    .map(|l| l.iter().filter_map(|v| if let Value::Symbol(s) = v { Some(cps(&s.value)) } else { None }).collect())
                    .unwrap_or_default();
                json!([cps(&d.value), is])
            })
        })
        .collect();
    json!({"op":"defs.load","rows":rows})
}

/// a panic inside a namespace query is an answer like any other: logged, judged by Trace_Defs
pub fn query_event(ns: &'static Namespace<'static>, sym: &str, all: &[String]) -> J {
    match crate::util::guarded(|| query_event_inner(ns, sym, all)) {
        Ok(j) => j,
        Err(p) => json!({"op":"defs.panic","what":"query","sym":cps(sym),"msg":cps(&crate::util::short(&p))}),
    }
}

fn query_event_inner(ns: &'static Namespace<'static>, sym: &str, all: &[String]) -> J {
    let s = Symbol::from(sym);
    let fits: Vec<J> = all.iter().filter(|b| ns.has_name(b) && ns.fits(&s, &Symbol::from(b.as_str()))).map(|b| cps(b)).collect();
    let fits_undefined: Vec<J> = all.iter().filter(|b| !ns.has_name(b) && ns.fits(&s, &Symbol::from(b.as_str()))).map(|b| cps(b)).collect();
    json!({"op":"defs.q","sym":cps(sym),"has":ns.has(&s),
        "sup":names(&ns.supertypes_of(&s)),"allsup":names(&ns.all_supertypes_of(&s)),
        "sub":names_owned(ns.subtypes_of(&s)),"hassub":ns.has_subtype(&s),"allsub":names(&ns.all_subtypes_of(&s)),
        "inh":names(&ns.inheritance(&s)),"fits":fits,"fits_undefined":fits_undefined,
        "choices":names_owned(ns.choices_for(&s)),"conjuncts":names(&ns.conjuncts_defs(&s))})
}

pub fn reflect_event(ns: &'static Namespace<'static>, rec: &Dict, asked: &[String]) -> J {
    match crate::util::guarded(|| reflect_event_inner(ns, rec, asked)) {
        Ok(j) => j,
        Err(p) => json!({"op":"defs.panic","what":"reflect","sym":tags(rec),"msg":cps(&crate::util::short(&p))}),
    }
}

fn reflect_event_inner(ns: &'static Namespace<'static>, rec: &Dict, asked: &[String]) -> J {
    let refl = ns.reflect(rec);
    let fits: Vec<J> = asked.iter().filter(|b| refl.fits(&Symbol::from(b.as_str()))).map(|b| cps(b)).collect();
    let isa: Vec<J> = asked
        .iter()
        .filter(|b| {
            // the `^symbol` filter term, evaluated with this namespace
            match Filter::try_from(format!("^{b}").as_str()) {
                Ok(f) => {
                    let ctx = EvalContext::make(rec, ns, rec);
                    f.eval(&ctx)
                }
                Err(_) => false,
            }
        })
        .map(|b| cps(b))
        .collect();
    json!({"op":"defs.reflect","rec":tags(rec),"defs":names(&refl.defs),"asked":asked.iter().map(|a| cps(a)).collect::<Vec<J>>(),
           "fits":fits,"isa":isa,"entity":cps(refl.entity_type.def_name())})
}

pub fn grid_of(rows: &[(String, Vec<String>)], noise: bool) -> Grid {
    let dicts: Vec<Dict> = rows
        .iter()
        .map(|(d, is)| {
            let mut r = Dict::new();
            r.insert("def".into(), Value::make_symbol(d));
            let mut l: Vec<Value> = is.iter().map(|s| Value::make_symbol(s)).collect();
            if noise && d.len() % 2 == 1 {
                l.push(Value::make_str("noise"));
                l.insert(0, Value::make_int(7));
            }
            if !l.is_empty() || d.len() % 3 == 0 {
                r.insert("is".into(), Value::make_list(l));
            }
            r.insert("doc".into(), Value::make_str("x"));
            r
        })
        .collect();
    Grid::make_from_dicts(dicts)
}

/// a taxonomy whose `is` chains are long: k0 <- k1 <- ... <- k(n-1), every 7th def with a second supertype on a
/// side branch that rejoins the chain lower down, one undefined supertype, one conjunct at the bottom
pub fn deep_rows(n: usize) -> Vec<(String, Vec<String>)> {
    let mut rows: Vec<(String, Vec<String>)> = Vec::new();
    for i in 0..n {
        let mut is = Vec::new();
        if i > 0 {
            is.push(format!("k{}", i - 1));
        }
        if i % 7 == 6 {
            is.push(format!("side{i}"));
            rows.push((format!("side{i}"), vec![format!("k{}", i.saturating_sub(5)), "undef0".to_string()]));
        }
        rows.push((format!("k{i}"), is));
    }
    rows.push((format!("k{}-k{}", n - 1, n / 2), vec![format!("k{}", n - 1)]));
    rows
}

fn leak(grid: Grid) -> &'static Namespace<'static> {
    Box::leak(Box::new(Namespace::make(grid)))
}

pub fn run(vec: &J, out: &mut Out) -> Result<(), String> {
    let op = vec["op"].as_str().unwrap_or("");
    match op {
        "defs.small" => {
            let mut rows = Vec::new();
            for r in vec["rows"].as_array().ok_or("rows")? {
                let d = text_of(&r[0])?;
                let is: Vec<String> = r[1].as_array().ok_or("is")?.iter().map(text_of).collect::<Result<_, _>>()?;
                rows.push((d, is));
            }
            let grid = grid_of(&rows, true);
            out.emit(load_event(&grid));
            let ns = leak(grid);
            let syms: Vec<String> = ["a", "b", "c", "d", "a-b", "a-c", "k:x", "choice", "u"].iter().map(|s| s.to_string()).collect();
            for s in &syms {
                out.emit(query_event(ns, s, &syms));
            }
            // records over the tags a b c d (absent / Marker / non-marker) and an undefined tag
            let opts = [None, Some(Value::Marker), Some(Value::make_int(1))];
            for a in &opts {
                for b in &opts {
                    for c in &opts {
                        for d in &opts[..2] {
                            let mut rec = Dict::new();
                            for (k, v) in [("a", a), ("b", b), ("c", c), ("d", d)] {
                                if let Some(v) = v {
                                    rec.insert(k.into(), v.clone());
                                }
                            }
                            rec.insert("zz".into(), Value::Marker);
                            out.emit(reflect_event(ns, &rec, &syms));
                        }
                    }
                }
            }
            Ok(())
        }
        _ => Err(format!("unknown defs op {op}")),
    }
}

pub fn real_defs_grid() -> Result<Grid, String> {
    let text = std::fs::read_to_string("/repo/tests/defs/defs.zinc").map_err(|e| e.to_string())?;
    match libhaystack::encoding::zinc::decode::from_str(&text).map_err(|e| e.to_string())? {
        Value::Grid(g) => Ok(g),
        _ => Err("defs.zinc is not a grid".into()),
    }
}

/// REC: the real Project Haystack defs (every symbol, every pair through fits), records from the points corpus,
/// and random acyclic taxonomies
pub fn rec(out: &mut Out, seed: u64, n_random: usize) -> Result<(), String> {
    let mut rng = Rng::new(seed);
    let grid = real_defs_grid()?;
    out.emit(load_event(&grid));
    let ns = leak(grid.clone());
    let mut all: Vec<String> = grid.rows.iter().filter_map(|r| r.get_symbol("def").map(|s| s.value.clone())).collect();
    all.sort();
    all.dedup();
    let mut asked = all.clone();
    asked.push("notADef".into());
    asked.push("site-foo".into());
    for s in &asked {
        out.emit(query_event(ns, s, &asked));
    }
    let _ = &*DEFAULT_NS;
    // records: rows of the points corpus + synthetic marker sets
    let ask: Vec<String> = ["site", "equip", "point", "ahu", "entity", "marker", "hot-water", "air", "elec-meter", "meter", "vav", "airHandlingEquip", "notADef", "lib:ph"].iter().map(|s| s.to_string()).collect();
    if let Ok(text) = std::fs::read_to_string("/repo/benches/zinc/points.zinc") {
        if let Ok(Value::Grid(g)) = libhaystack::encoding::zinc::decode::from_str(&text) {
            for (i, r) in g.rows.iter().enumerate() {
                if i % 25 == 0 {
                    let mut slim = Dict::new();
                    for (k, v) in r.iter() {
                        if v.is_marker() || v.is_number() || v.is_str() {
                            slim.insert(k.clone(), if v.is_marker() { Value::Marker } else { Value::make_int(1) });
                        }
                    }
                    out.emit(reflect_event(ns, &slim, &ask));
                }
            }
        }
    }
    let markers: Vec<&String> = all.iter().filter(|s| !s.contains('-') && !s.contains(':')).collect();
    for _ in 0..150 {
        let mut rec = Dict::new();
        for _ in 0..(1 + rng.below(6)) {
            let k = markers[rng.below(markers.len())].clone();
            rec.insert(k, if rng.chance(4, 5) { Value::Marker } else { Value::make_str("x") });
        }
        // parts of a random conjunct
        let conj: Vec<&String> = all.iter().filter(|s| s.contains('-')).collect();
        let c = conj[rng.below(conj.len())];
        for p in c.split('-') {
            if rng.chance(5, 6) {
                rec.insert(p.to_string(), Value::Marker);
            }
        }
        out.emit(reflect_event(ns, &rec, &ask));
    }
    // deep taxonomies (chains of 40 and 90 links), asked leaves first on one cold namespace and roots first on another
    for (n, leaves_first) in [(40usize, true), (90, true), (90, false)] {
        let rows = deep_rows(n);
        let grid = grid_of(&rows, false);
        out.emit(load_event(&grid));
        let ns = leak(grid);
        let mut asked: Vec<String> = rows.iter().map(|r| r.0.clone()).collect();
        asked.push("undef0".into());
        if leaves_first {
            asked.reverse();
        }
        for s in asked.iter() {
            out.emit(query_event(ns, s, &asked));
        }
        let mut rec = Dict::new();
        rec.insert(format!("k{}", n - 1), Value::Marker);
        rec.insert(format!("k{}", n / 2), Value::Marker);
        out.emit(reflect_event(ns, &rec, &asked));
    }
    // random acyclic taxonomies with multiple inheritance, undefined supertypes, conjuncts, feature keys
    for t in 0..n_random {
        let n = 30 + rng.below(170);
        let mut rows: Vec<(String, Vec<String>)> = Vec::new();
        let mut names: Vec<String> = Vec::new();
        for i in 0..n {
            let name = match rng.below(10) {
                0 if names.len() >= 2 => {
                    let a = names[rng.below(names.len())].clone();
                    let b = names[rng.below(names.len())].clone();
                    if a.contains('-') || b.contains('-') || a.contains(':') || b.contains(':') || names.contains(&format!("{a}-{b}")) { format!("t{t}x{i}") } else { format!("{a}-{b}") }
                }
                1 => format!("feat{}:k{i}", rng.below(3)),
                _ => format!("t{t}x{i}"),
            };
            let mut is = Vec::new();
            for _ in 0..rng.below(4) {
                if !names.is_empty() && rng.chance(5, 6) {
                    is.push(names[rng.below(names.len())].clone());
                } else {
                    is.push(format!("undef{}", rng.below(5)));
                }
            }
            if rng.chance(1, 12) {
                is.push("choice".into());
            }
            rows.push((name.clone(), is));
            names.push(name);
        }
        rows.push(("choice".into(), vec![]));
        let grid = grid_of(&rows, true);
        out.emit(load_event(&grid));
        let ns = leak(grid);
        let mut asked: Vec<String> = names.clone();
        asked.push("choice".into());
        asked.push("undef0".into());
        asked.push("undef9".into());
        // all symbols queried; fits over a window of bases to keep events small
        for s in asked.iter() {
            let window: Vec<String> = asked.iter().filter(|_| true).cloned().collect();
            out.emit(query_event(ns, s, &window));
        }
        for _ in 0..40 {
            let mut rec = Dict::new();
            for _ in 0..(1 + rng.below(5)) {
                let k = names[rng.below(names.len())].clone();
                if k.contains('-') {
                    for p in k.split('-') {
                        rec.insert(p.to_string(), Value::Marker);
                    }
                } else if !k.contains(':') {
                    rec.insert(k, if rng.chance(3, 4) { Value::Marker } else { Value::make_int(2) });
                }
            }
            let ask: Vec<String> = (0..12).map(|_| asked[rng.below(asked.len())].clone()).collect();
            out.emit(reflect_event(ns, &rec, &ask));
        }
    }
    Ok(())
}

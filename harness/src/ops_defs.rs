//! Defs namespace operations (C13; C14 reuses the query projection).
use crate::absval::{cps, tags, text_of};
use crate::util::{Out, Rng};
use libhaystack::defs::namespace::{DefDict, Namespace, DEFAULT_NS};
use libhaystack::filter::{Filter, Filtered};
use libhaystack::filter::eval::EvalContext;
use libhaystack::filter::Eval;
use libhaystack::val::*;
use serde_json::{json, Value as J};

fn names(defs: &[&Dict]) -> J {
    J::Array(defs.iter().map(|d| cps(d.def_name())).collect())
}
fn names_owned(defs: &[Dict]) -> J {
    J::Array(defs.iter().map(|d| cps(d.def_name())).collect())
}

/// the defs grid projected to (def name, symbol names of its `is` list)
pub fn load_event(grid: &Grid) -> J {
    let rows: Vec<J> = grid
        .rows
        .iter()
        .filter_map(|r| {
            r.get_symbol("def").map(|d| {
                let is: Vec<J> = r
                    .get_list("is")
                    .map(|l| l.iter().filter_map(|v| if let Value::Symbol(s) = v { Some(cps(&s.value)) } else { None }).collect())
                    .unwrap_or_default();
                json!([cps(&d.value), is])
            })
        })
        .collect();
    json!({"op":"defs.load","rows":rows})
}

/// the load event of Trace_Defs: the `is` graph plus, per def, the other tags the namespace reads (associations,
/// mandatory, reciprocalOf, children, childrenFlatten ...) projected to what Defs.tla's `at` holds
pub fn load_event_rich(grid: &Grid) -> J {
    let mut ev = load_event(grid);
    let mut attrs: Vec<J> = Vec::new();
    for r in grid.rows.iter() {
        let Some(d) = r.get_symbol("def") else { continue };
        let (mut lists, mut listtags, mut markers, mut syms, mut others) = (Vec::new(), Vec::new(), Vec::new(), Vec::new(), Vec::new());
        for (k, v) in r.iter() {
            match v {
                Value::Marker => markers.push(cps(k)),
                Value::List(l) => {
                    listtags.push(cps(k));
                    for x in l {
                        if let Value::Symbol(s) = x {
                            lists.push(json!([cps(k), cps(&s.value)]));
                        }
                    }
                }
                Value::Symbol(s) => syms.push(json!([cps(k), cps(&s.value)])),
                _ => others.push(cps(k)),
            }
        }
        let (kids, children) = match r.get("children") {
            None => ("none", json!([])),
            Some(Value::Str(s)) => ("str", cps(&s.value)),
            Some(Value::List(l)) => ("list", J::Array(l.iter().filter_map(|x| if let Value::Dict(d) = x { Some(tags(d)) } else { None }).collect())),
            Some(_) => ("other", json!([])),
        };
        attrs.push(json!([cps(&d.value), lists, listtags, markers, syms, others, kids, children]));
    }
    ev["attrs"] = J::Array(attrs);
    ev
}

fn named(m: &std::collections::BTreeMap<Symbol, Vec<Dict>>) -> J {
    J::Array(m.iter().map(|(k, v)| json!([cps(&k.value), names_owned(v)])).collect())
}

/// the indexes `Namespace::make` builds once
pub fn index_event(ns: &'static Namespace<'static>) -> J {
    match crate::util::guarded(|| {
        json!({"op":"defs.index",
            "features":names_owned(&ns.features),"conjuncts":names_owned(&ns.conjuncts),"libs":names_owned(&ns.libs),
            "feature_names":ns.feature_names.iter().map(|s| cps(s)).collect::<Vec<J>>(),
            "tag_on_names":ns.tag_on_names.iter().map(|s| cps(s)).collect::<Vec<J>>(),
            "tag_on_defs":named(&ns.tag_on_defs),"choices":named(&ns.choices),"subtypes":named(&ns.subtypes)})
    }) {
        Ok(j) => j,
        Err(p) => json!({"op":"defs.panic","what":"index","sym":cps(""),"msg":cps(&crate::util::short(&p))}),
    }
}

/// associations, implementation and the fits_* shorthands of one symbol
pub fn assoc_event(ns: &'static Namespace<'static>, sym: &str, assocs: &[String]) -> J {
    match crate::util::guarded(|| {
        let s = Symbol::from(sym);
        let by: Vec<J> = assocs.iter().map(|a| json!([cps(a), names(&ns.associations(&s, &Symbol::from(a.as_str())))])).collect();
        json!({"op":"defs.assoc","sym":cps(sym),"is":names(&ns.is(&s)),"tag_on":names(&ns.tag_on(&s)),"tags":names(&ns.tags(&s)),
            "by":by,"impl":names(&ns.implementation(&s)),
            "fits_marker":ns.fits_marker(&s),"fits_val":ns.fits_val(&s),"fits_choice":ns.fits_choice(&s),"fits_entity":ns.fits_entity(&s)})
    }) {
        Ok(j) => j,
        Err(p) => json!({"op":"defs.panic","what":"assoc","sym":cps(sym),"msg":cps(&crate::util::short(&p))}),
    }
}

/// children prototypes of a record
pub fn protos_event(ns: &'static Namespace<'static>, rec: &Dict) -> J {
    match crate::util::guarded(|| {
        let ps = ns.protos(rec);
        json!({"op":"defs.protos","rec":tags(rec),"protos":ps.iter().map(tags).collect::<Vec<J>>(),
               "entity":cps(ns.reflect(rec).entity_type.get_symbol("def").map_or("", |s| s.value.as_str()))})
    }) {
        Ok(j) => j,
        Err(p) => json!({"op":"defs.panic","what":"protos","sym":tags(rec),"msg":cps(&crate::util::short(&p))}),
    }
}

/// a panic inside a namespace query is an answer like any other: logged, judged by Trace_Defs
pub fn query_event(ns: &'static Namespace<'static>, sym: &str, all: &[String]) -> J {
    match crate::util::guarded(|| query_event_inner(ns, sym, all)) {
        Ok(j) => j,
        Err(p) => json!({"op":"defs.panic","what":"query","sym":cps(sym),"msg":cps(&crate::util::short(&p))}),
    }
}

fn query_event_inner(ns: &'static Namespace<'static>, sym: &str, all: &[String]) -> J {
    let s = Symbol::from(sym);
    let fits: Vec<J> = all.iter().filter(|b| ns.has_name(b) && ns.fits(&s, &Symbol::from(b.as_str()))).map(|b| cps(b)).collect();
    let fits_undefined: Vec<J> = all.iter().filter(|b| !ns.has_name(b) && ns.fits(&s, &Symbol::from(b.as_str()))).map(|b| cps(b)).collect();
    json!({"op":"defs.q","sym":cps(sym),"has":ns.has(&s),
        "sup":names(&ns.supertypes_of(&s)),"allsup":names(&ns.all_supertypes_of(&s)),
        "sub":names_owned(ns.subtypes_of(&s)),"hassub":ns.has_subtype(&s),"allsub":names(&ns.all_subtypes_of(&s)),
        "inh":names(&ns.inheritance(&s)),"fits":fits,"fits_undefined":fits_undefined,
        "choices":names_owned(ns.choices_for(&s)),"conjuncts":names(&ns.conjuncts_defs(&s))})
}

pub fn reflect_event(ns: &'static Namespace<'static>, rec: &Dict, asked: &[String]) -> J {
    match crate::util::guarded(|| reflect_event_inner(ns, rec, asked)) {
        Ok(j) => j,
        Err(p) => json!({"op":"defs.panic","what":"reflect","sym":tags(rec),"msg":cps(&crate::util::short(&p))}),
    }
}

fn reflect_event_inner(ns: &'static Namespace<'static>, rec: &Dict, asked: &[String]) -> J {
    let refl = ns.reflect(rec);
    let fits: Vec<J> = asked.iter().filter(|b| refl.fits(&Symbol::from(b.as_str()))).map(|b| cps(b)).collect();
    let isa: Vec<J> = asked
        .iter()
        .filter(|b| {
            // the `^symbol` filter term, evaluated with this namespace
            match Filter::try_from(format!("^{b}").as_str()) {
                Ok(f) => {
                    let ctx = EvalContext::make(rec, ns, rec);
                    f.eval(&ctx)
                }
                Err(_) => false,
            }
        })
        .map(|b| cps(b))
        .collect();
    json!({"op":"defs.reflect","rec":tags(rec),"defs":names(&refl.defs),"asked":asked.iter().map(|a| cps(a)).collect::<Vec<J>>(),
           "fits":fits,"isa":isa,"entity":cps(refl.entity_type.get_symbol("def").map_or("", |s| s.value.as_str()))})
}

pub fn grid_of(rows: &[(String, Vec<String>)], noise: bool) -> Grid {
    let dicts: Vec<Dict> = rows
        .iter()
        .map(|(d, is)| {
            let mut r = Dict::new();
            r.insert("def".into(), Value::make_symbol(d));
            let mut l: Vec<Value> = is.iter().map(|s| Value::make_symbol(s)).collect();
            if noise && d.len() % 2 == 1 {
                l.push(Value::make_str("noise"));
                l.insert(0, Value::make_int(7));
            }
            if !l.is_empty() || d.len() % 3 == 0 {
                r.insert("is".into(), Value::make_list(l));
            }
            r.insert("doc".into(), Value::make_str("x"));
            r
        })
        .collect();
    Grid::make_from_dicts(dicts)
}

fn sym_list(names: &[String]) -> Value {
    Value::make_list(names.iter().map(|n| Value::make_symbol(n)).collect())
}

/// defs that carry more than `is`: the association defs themselves (plain, computed, computed with an undefined or
/// missing reciprocal, a subtype of an association), tagOn / rel1 lists with undefined and non-symbol entries,
/// mandatory markers, entity / marker / val roots, children prototypes (list and multi-line text) and childrenFlatten
pub fn grid_rich(rows: &[(String, Vec<String>)], rng: &mut Rng) -> Grid {
    let mut rows: Vec<(String, Vec<String>)> = rows.to_vec();
    for r in rows.iter_mut() {
        if r.0.contains('-') || r.0.contains(':') || r.0 == "choice" {
            continue;
        }
        match rng.below(10) {
            0 => r.1.push("entity".into()),
            1 => r.1.push("marker".into()),
            2 => r.1.push("val".into()),
            _ => {}
        }
    }
    let names: Vec<String> = rows.iter().map(|r| r.0.clone()).collect();
    let pick = |rng: &mut Rng| -> String {
        if rng.chance(1, 7) { format!("undef{}", rng.below(4)) } else { names[rng.below(names.len())].clone() }
    };
    let base = grid_of(&rows, true);
    let mut dicts: Vec<Dict> = base.rows.clone();
    for d in dicts.iter_mut() {
        if rng.chance(1, 3) {
            let mut l: Vec<Value> = (0..1 + rng.below(3)).map(|_| Value::make_symbol(&pick(rng))).collect();
            if rng.chance(1, 4) {
                l.push(Value::make_str("tagOnNoise"));
            }
            d.insert("tagOn".into(), Value::make_list(l));
        }
        if rng.chance(1, 5) {
            d.insert("rel1".into(), sym_list(&[pick(rng), pick(rng)]));
        }
        if rng.chance(1, 12) {
            d.insert("rel1".into(), Value::make_symbol(&pick(rng))); // not a list: ignored by the reciprocal search
        }
        if rng.chance(1, 5) {
            d.insert("mandatory".into(), Value::Marker);
        }
        if rng.chance(1, 15) {
            d.insert("mandatory".into(), Value::make_str("no")); // not a marker
        }
        if rng.chance(1, 5) {
            let kid = |rng: &mut Rng| -> Dict {
                let mut k = Dict::new();
                for _ in 0..rng.below(4) {
                    let n = pick(rng);
                    if !n.contains('-') && !n.contains(':') {
                        k.insert(n, if rng.chance(2, 3) { Value::Marker } else { Value::make_int(rng.below(3) as i64) });
                    }
                }
                k
            };
            if rng.chance(1, 2) {
                let mut l: Vec<Value> = (0..1 + rng.below(3)).map(|_| Value::make_dict(kid(rng))).collect();
                l.push(Value::make_int(3));
                d.insert("children".into(), Value::make_list(l));
            } else {
                let mut text = String::new();
                for _ in 0..1 + rng.below(5) {
                    let line = match rng.below(9) {
                        0 => "// a comment".to_string(),
                        1 => "   ".to_string(),
                        2 => "broken:{".to_string(),
                        3 => format!("  {} point\r", pick(rng).replace(['-', ':'], "X")),
                        4 => format!("{}:{} s:\"x y\"", pick(rng).replace(['-', ':'], "X"), rng.below(4)),
                        5 => format!("{}, q:2kW\t", pick(rng).replace(['-', ':'], "X")),
                        6 => "".to_string(),
                        _ => format!("{} {} equip", pick(rng).replace(['-', ':'], "X"), pick(rng).replace(['-', ':'], "X")),
                    };
                    text.push_str(&line);
                    text.push('\n');
                }
                d.insert("children".into(), Value::make_str(&text));
            }
            if rng.chance(2, 3) {
                d.insert("childrenFlatten".into(), sym_list(&[pick(rng), pick(rng)]));
            }
        } else if rng.chance(1, 30) {
            d.insert("children".into(), Value::make_int(1));
        }
    }
    let mk = |name: &str, is: &[&str], extra: Vec<(&str, Value)>| -> Dict {
        let mut r = Dict::new();
        r.insert("def".into(), Value::make_symbol(name));
        r.insert("is".into(), Value::make_list(is.iter().map(|s| Value::make_symbol(s)).collect()));
        for (k, v) in extra {
            r.insert(k.into(), v);
        }
        r
    };
    dicts.push(mk("marker", &[], vec![]));
    dicts.push(mk("val", &[], vec![]));
    dicts.push(mk("entity", &["marker"], vec![]));
    dicts.push(mk("association", &[], vec![]));
    dicts.push(mk("is", &["association"], vec![]));
    dicts.push(mk("tagOn", &["association"], vec![]));
    dicts.push(mk("tags", &["association"], vec![("computedFromReciprocal", Value::Marker), ("reciprocalOf", Value::make_symbol("tagOn"))]));
    dicts.push(mk("rel1", &["association", "undef1"], vec![]));
    dicts.push(mk("rel1s", &["undef2", "association"], vec![("computedFromReciprocal", Value::make_str("yes")), ("reciprocalOf", Value::make_symbol("rel1"))]));
    dicts.push(mk("relBad", &["association"], vec![("computedFromReciprocal", Value::Marker), ("reciprocalOf", Value::make_symbol("undef3"))]));
    dicts.push(mk("relNone", &["association"], vec![("computedFromReciprocal", Value::Marker)]));
    dicts.push(mk("relSub", &["rel1"], vec![]));
    dicts.push(mk("notAssoc", &["marker"], vec![("reciprocalOf", Value::make_symbol("tagOn"))]));
    Grid::make_from_dicts(dicts)
}

/// the association names asked about in a rich grid
pub const RICH_ASSOCS: [&str; 12] = ["is", "tagOn", "tags", "rel1", "rel1s", "relBad", "relNone", "relSub", "notAssoc", "association", "undef0", "marker"];

/// a taxonomy whose `is` chains are long: k0 <- k1 <- ... <- k(n-1), every 7th def with a second supertype on a
/// side branch that rejoins the chain lower down, one undefined supertype, one conjunct at the bottom
pub fn deep_rows(n: usize) -> Vec<(String, Vec<String>)> {
    let mut rows: Vec<(String, Vec<String>)> = Vec::new();
    for i in 0..n {
        let mut is = Vec::new();
        if i > 0 {
            is.push(format!("k{}", i - 1));
        }
        if i % 7 == 6 {
            is.push(format!("side{i}"));
            rows.push((format!("side{i}"), vec![format!("k{}", i.saturating_sub(5)), "undef0".to_string()]));
        }
        rows.push((format!("k{i}"), is));
    }
    rows.push((format!("k{}-k{}", n - 1, n / 2), vec![format!("k{}", n - 1)]));
    rows
}

fn leak(grid: Grid) -> &'static Namespace<'static> {
    Box::leak(Box::new(Namespace::make(grid)))
}

pub fn run(vec: &J, out: &mut Out) -> Result<(), String> {
    let op = vec["op"].as_str().unwrap_or("");
    match op {
        "defs.small" => {
            let mut rows = Vec::new();
            for r in vec["rows"].as_array().ok_or("rows")? {
                let d = text_of(&r[0])?;
                let is: Vec<String> = r[1].as_array().ok_or("is")?.iter().map(text_of).collect::<Result<_, _>>()?;
                rows.push((d, is));
            }
            let grid = grid_of(&rows, true);
            out.emit(load_event_rich(&grid));
            let ns = leak(grid);
            let syms: Vec<String> = ["a", "b", "c", "d", "a-b", "a-c", "k:x", "choice", "u"].iter().map(|s| s.to_string()).collect();
            out.emit(index_event(ns));
            for s in &syms {
                out.emit(query_event(ns, s, &syms));
                out.emit(assoc_event(ns, s, &syms[..3]));
            }
            // records over the tags a b c d (absent / Marker / non-marker) and an undefined tag
            let opts = [None, Some(Value::Marker), Some(Value::make_int(1))];
            for a in &opts {
                for b in &opts {
                    for c in &opts {
                        for d in &opts[..2] {
                            let mut rec = Dict::new();
                            for (k, v) in [("a", a), ("b", b), ("c", c), ("d", d)] {
                                if let Some(v) = v {
                                    rec.insert(k.into(), v.clone());
                                }
                            }
                            rec.insert("zz".into(), Value::Marker);
                            out.emit(reflect_event(ns, &rec, &syms));
                        }
                    }
                }
            }
            Ok(())
        }
        _ => Err(format!("unknown defs op {op}")),
    }
}

pub fn real_defs_grid() -> Result<Grid, String> {
    let text = std::fs::read_to_string("/repo/tests/defs/defs.zinc").map_err(|e| e.to_string())?;
    match libhaystack::encoding::zinc::decode::from_str(&text).map_err(|e| e.to_string())? {
        Value::Grid(g) => Ok(g),
        _ => Err("defs.zinc is not a grid".into()),
    }
}

/// REC: the real Project Haystack defs (every symbol, every pair through fits), records from the points corpus,
/// and random acyclic taxonomies
pub fn rec(out: &mut Out, seed: u64, n_random: usize) -> Result<(), String> {
    let mut rng = Rng::new(seed);
    let grid = real_defs_grid()?;
    let load = load_event_rich(&grid);
    out.emit(load.clone());
    let ns = leak(grid.clone());
    let mut all: Vec<String> = grid.rows.iter().filter_map(|r| r.get_symbol("def").map(|s| s.value.clone())).collect();
    all.sort();
    all.dedup();
    let mut asked = all.clone();
    asked.push("notADef".into());
    asked.push("site-foo".into());
    // every def that lists `association` directly, one that only inherits it, and three that are no associations
    let mut assocs: Vec<String> = grid
        .rows
        .iter()
        .filter(|r| r.get_list("is").is_some_and(|l| l.contains(&Value::make_symbol("association"))))
        .filter_map(|r| r.get_symbol("def").map(|s| s.value.clone()))
        .collect();
    for extra in ["association", "site", "notADef", "relationship", "containedBy"] {
        assocs.push(extra.into());
    }
    out.emit(index_event(ns));
    // the trace is cut in front of load events: the same load in front of each slice lets TLC judge the slices in parallel
    for (i, s) in asked.iter().enumerate() {
        if i > 0 && i % 60 == 0 {
            out.emit(load.clone());
        }
        out.emit(query_event(ns, s, &asked));
        out.emit(assoc_event(ns, s, &assocs));
    }
    out.emit(load.clone());
    let _ = &*DEFAULT_NS;
    // records: rows of the points corpus + synthetic marker sets
    let ask: Vec<String> = ["site", "equip", "point", "ahu", "entity", "marker", "hot-water", "air", "elec-meter", "meter", "vav", "airHandlingEquip", "notADef", "lib:ph"].iter().map(|s| s.to_string()).collect();
    if let Ok(text) = std::fs::read_to_string("/repo/benches/zinc/points.zinc") {
        if let Ok(Value::Grid(g)) = libhaystack::encoding::zinc::decode::from_str(&text) {
            for (i, r) in g.rows.iter().enumerate() {
                if i % 25 == 0 {
                    let mut slim = Dict::new();
                    for (k, v) in r.iter() {
                        if v.is_marker() || v.is_number() || v.is_str() {
                            slim.insert(k.clone(), if v.is_marker() { Value::Marker } else { Value::make_int(1) });
                        }
                    }
                    out.emit(reflect_event(ns, &slim, &ask));
                    out.emit(protos_event(ns, &slim));
                }
            }
        }
    }
    // records over the defs that have children, with the tags their childrenFlatten looks for
    let with_children: Vec<String> = grid.rows.iter().filter(|r| r.has("children")).filter_map(|r| r.get_symbol("def").map(|s| s.value.clone())).collect();
    let flatten_hits = ["steam", "leaving", "entering", "hot", "water", "air", "elec", "naturalGas", "discharge", "return", "chilled", "makeup", "ac", "dc"];
    for c in with_children.iter() {
        for round in 0..6 {
            let mut rec = Dict::new();
            rec.insert(c.clone(), Value::Marker);
            rec.insert("equip".into(), Value::Marker);
            for _ in 0..round {
                let k = flatten_hits[rng.below(flatten_hits.len())];
                rec.insert(k.into(), match rng.below(4) { 0 => Value::Null, 1 => Value::make_str("v"), _ => Value::Marker });
            }
            out.emit(protos_event(ns, &rec));
        }
    }
    let markers: Vec<&String> = all.iter().filter(|s| !s.contains('-') && !s.contains(':')).collect();
    for _ in 0..150 {
        let mut rec = Dict::new();
        for _ in 0..(1 + rng.below(6)) {
            let k = markers[rng.below(markers.len())].clone();
            rec.insert(k, if rng.chance(4, 5) { Value::Marker } else { Value::make_str("x") });
        }
        if rng.chance(1, 2) {
            rec.insert(with_children[rng.below(with_children.len())].clone(), Value::Marker);
        }
        // parts of a random conjunct
        let conj: Vec<&String> = all.iter().filter(|s| s.contains('-')).collect();
        let c = conj[rng.below(conj.len())];
        for p in c.split('-') {
            if rng.chance(5, 6) {
                rec.insert(p.to_string(), Value::Marker);
            }
        }
        out.emit(reflect_event(ns, &rec, &ask));
        out.emit(protos_event(ns, &rec));
    }
    // deep taxonomies (chains of 40 and 90 links), asked leaves first on one cold namespace and roots first on another
    for (n, leaves_first) in [(40usize, true), (90, true), (90, false)] {
        let rows = deep_rows(n);
        let grid = grid_of(&rows, false);
        out.emit(load_event_rich(&grid));
        let ns = leak(grid);
        let mut asked: Vec<String> = rows.iter().map(|r| r.0.clone()).collect();
        asked.push("undef0".into());
        if leaves_first {
            asked.reverse();
        }
        for s in asked.iter() {
            out.emit(query_event(ns, s, &asked));
        }
        let mut rec = Dict::new();
        rec.insert(format!("k{}", n - 1), Value::Marker);
        rec.insert(format!("k{}", n / 2), Value::Marker);
        out.emit(reflect_event(ns, &rec, &asked));
    }
    // random acyclic taxonomies with multiple inheritance, undefined supertypes, conjuncts, feature keys
    for t in 0..n_random {
        let n = 30 + rng.below(170);
        let mut rows: Vec<(String, Vec<String>)> = Vec::new();
        let mut names: Vec<String> = Vec::new();
        for i in 0..n {
            let name = match rng.below(10) {
                0 if names.len() >= 2 => {
                    let a = names[rng.below(names.len())].clone();
                    let b = names[rng.below(names.len())].clone();
                    if a.contains('-') || b.contains('-') || a.contains(':') || b.contains(':') || names.contains(&format!("{a}-{b}")) { format!("t{t}x{i}") } else { format!("{a}-{b}") }
                }
                1 => format!("feat{}:k{i}", rng.below(3)),
                _ => format!("t{t}x{i}"),
            };
            let mut is = Vec::new();
            for _ in 0..rng.below(4) {
                if !names.is_empty() && rng.chance(5, 6) {
                    is.push(names[rng.below(names.len())].clone());
                } else {
                    is.push(format!("undef{}", rng.below(5)));
                }
            }
            if rng.chance(1, 12) {
                is.push("choice".into());
            }
            rows.push((name.clone(), is));
            names.push(name);
        }
        rows.push(("choice".into(), vec![]));
        let grid = grid_rich(&rows, &mut rng);
        out.emit(load_event_rich(&grid));
        let ns = leak(grid);
        out.emit(index_event(ns));
        let assocs: Vec<String> = RICH_ASSOCS.iter().map(|s| s.to_string()).collect();
        let mut asked: Vec<String> = names.clone();
        for extra in ["entity", "marker", "val", "association", "tags", "rel1s"] {
            asked.push(extra.into());
        }
        asked.push("choice".into());
        asked.push("undef0".into());
        asked.push("undef9".into());
        // all symbols queried; fits over a window of bases to keep events small
        for s in asked.iter() {
            let window: Vec<String> = asked.iter().filter(|_| true).cloned().collect();
            out.emit(query_event(ns, s, &window));
            out.emit(assoc_event(ns, s, &assocs));
        }
        for _ in 0..40 {
            let mut rec = Dict::new();
            for _ in 0..(1 + rng.below(5)) {
                let k = names[rng.below(names.len())].clone();
                if k.contains('-') {
                    for p in k.split('-') {
                        rec.insert(p.to_string(), Value::Marker);
                    }
                } else if !k.contains(':') {
                    rec.insert(k, match rng.below(8) { 0 => Value::make_int(2), 1 => Value::Null, _ => Value::Marker });
                }
            }
            let ask: Vec<String> = (0..12).map(|_| asked[rng.below(asked.len())].clone()).collect();
            out.emit(reflect_event(ns, &rec, &ask));
            out.emit(protos_event(ns, &rec));
        }
    }
    Ok(())
}

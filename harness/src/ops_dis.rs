//! Display names (C20).
use crate::absval::{alpha, cps, gamma_tags, tags, text_of};
use crate::util::{guarded, Out, Rng};
use libhaystack::val::*;
use serde_json::{json, Value as J};
use std::borrow::Cow;

fn disp_of(d: &Dict) -> J {
    J::Array(d.iter().map(|(k, v)| json!([cps(k), cps(&guarded(|| v.to_string()).unwrap_or_else(|_| "<panic>".into()))])).collect())
}

fn scope() -> Dict {
    let mut d = Dict::new();
    d.insert("a".into(), Value::make_str("[A]"));
    d.insert("aa".into(), Value::make_str("[AA]"));
    d.insert("aB1".into(), Value::make_str("$aa"));
    d.insert("a_".into(), Value::make_str(""));
    d
}

fn loc_pairs() -> Vec<(&'static str, &'static str)> {
    vec![("a", "(a)"), ("aa::B", "${aa}"), (" ", "sp")]
}

pub fn macro_event(pattern: &str, d: &Dict, loc: &[(&str, &str)]) -> J {
    let r = guarded(|| {
        dis_macro(pattern, |name| d.get(name).map(Cow::Borrowed), |key| loc.iter().find(|(k, _)| *k == key).map(|(_, v)| Cow::Borrowed(*v))).to_string()
    });
    let (result, monitor) = match r {
        Ok(s) => (s, "ok"),
        Err(_) => (String::new(), "panic"),
    };
    json!({"op":"dis.macro","pattern":cps(pattern),"tags":tags(d),"disp":disp_of(d),
        "loc":loc.iter().map(|(k, v)| json!([cps(k), cps(v)])).collect::<Vec<J>>(),"result":cps(&result),"monitor":monitor})
}

pub fn rec_event(d: &Dict) -> J {
    let loc = [("text", "LOCALIZED"), ("$name and ${navName}", "L2")];
    let r = guarded(|| {
        let a = d.dis().to_string();
        let b = dict_to_dis(d, &|key| loc.iter().find(|(k, _)| *k == key).map(|(_, v)| Cow::Borrowed(*v)), Some(Cow::Borrowed("DEFAULT"))).to_string();
        (a, b)
    });
    let (a, b, monitor) = match r {
        Ok((a, b)) => (a, b, "ok"),
        Err(_) => (String::new(), String::new(), "panic"),
    };
    json!({"op":"dis.rec","rec":tags(d),"disp":disp_of(d),"loc":loc.iter().map(|(k, v)| json!([cps(k), cps(v)])).collect::<Vec<J>>(),
        "def":cps("DEFAULT"),"dis":cps(&a),"dis2":cps(&b),"monitor":monitor})
}

pub fn run(vec: &J, out: &mut Out) -> Result<(), String> {
    match vec["op"].as_str().unwrap_or("") {
        "dis.macro" => {
            let p = text_of(&vec["pattern"])?;
            out.emit(macro_event(&p, &scope(), &loc_pairs()));
            out.emit(macro_event(&p, &Dict::new(), &[]));
            Ok(())
        }
        "dis.rec" => {
            let d = gamma_tags(&vec["rec"])?;
            out.emit(rec_event(&d));
            Ok(())
        }
        _ => Err("unknown dis op".into()),
    }
}

/// REC: longer random patterns against scopes with values of every kind
pub fn rec(out: &mut Out, seed: u64, n: usize) {
    let mut g = crate::gen::Gen::new(seed);
    let pieces = ["$", "{", "}", "<", ">", "a", "aa", "navName", "equipRef", "B", "1", "_", " ", "é", "$$", "${", "$<", "x::y", "dis", "id"];
    for _ in 0..n {
        let mut d = Dict::new();
        for name in ["a", "aa", "navName", "equipRef", "dis", "id", "x1"] {
            if g.rng.chance(2, 3) {
                let v = match g.rng.below(4) {
                    0 => Value::make_str(&g.text(8, true)),
                    _ => g.scalar(),
                };
                d.insert(name.to_string(), v);
            }
        }
        let mut p = String::new();
        for _ in 0..g.rng.below(12) {
            p.push_str(pieces[g.rng.below(pieces.len())]);
        }
        let _ = alpha(&Value::Null);
        out.emit(macro_event(&p, &d, &[("x::y", "XY"), ("aa", "loc-aa")]));
        let mut r2 = Dict::new();
        for name in ["dis", "disMacro", "disKey", "name", "def", "tag", "navName", "id", "other"] {
            if g.rng.chance(1, 3) {
                let v = if name == "disMacro" && g.rng.chance(1, 2) { Value::make_str(&p) } else if g.rng.chance(1, 2) { Value::make_str(&g.text(6, true)) } else { g.scalar() };
                r2.insert(name.to_string(), v);
            }
        }
        out.emit(rec_event(&r2));
    }
    let _ = Rng::new(0);
}

//! hs: the implementation side of the model-based checks. It executes, projects and logs;
//! verdicts are taken by TLC evaluating the TLA+ specification on the logged events.
mod absval;
mod gen;
mod jtree;
mod ops_capi;
mod ops_defs;
mod ops_dis;
mod ops_enc;
mod ops_json;
mod ops_kinds;
mod ops_ns;
mod ops_order;
mod ops_time;
mod ops_total;
mod ops_units;
mod ops_zinc;
mod util;
mod worker;
mod ops_filter;

use serde_json::{json, Value as J};
use util::{read_lines, silence_panics, Out};

fn arg(args: &[String], name: &str) -> Option<String> {
    args.iter().position(|a| a == name).and_then(|i| args.get(i + 1).cloned())
}

fn dispatch(vec: &J, out: &mut Out, wk: &mut Option<worker::Worker>) -> Result<(), String> {
    let op = vec["op"].as_str().unwrap_or("");
    let dom = op.split('.').next().unwrap_or("");
    match dom {
        "zinc" => ops_zinc::run(vec).map(|e| out.emit(e)),
        "hayson" => ops_json::run(vec).map(|e| out.emit(e)),
        "enc" => ops_enc::run(vec).map(|e| out.emit(e)),
        "defs" => ops_defs::run(vec, out),
        "ns" => ops_ns::run(vec, out),
        "capi" => ops_capi::run(vec, out),
        "units" => ops_units::run(vec, out),
        "ord" => ops_order::run(vec, out),
        "dis" => ops_dis::run(vec, out),
        "kind" => ops_kinds::run(vec, out),
        "time" => ops_time::run(vec, out),
        "filter" => ops_filter::run(vec, out, wk.get_or_insert_with(worker::Worker::new)),
        "dec" | "stab" => ops_total::run(vec, out, wk.get_or_insert_with(worker::Worker::new)),
        _ => Err(format!("unknown op {op}")),
    }
}

fn main() {
    let args: Vec<String> = std::env::args().collect();
    if args.len() < 2 {
        eprintln!("usage: hs run --in VECTORS --out EVENTS | hs rec DOMAIN --n N --seed S --out EVENTS");
        std::process::exit(2);
    }
    silence_panics();
    if args[1] == "zones" {
        // the zone ids of the bundled tz database
        println!("{}", serde_json::json!(chrono_tz::TZ_VARIANTS.iter().map(|z| z.name()).collect::<Vec<_>>()));
        return;
    }
    if args[1] == "worker" {
        worker::worker_main(ops_total::worker_handle);
        return;
    }
    if args[1] == "bomb-child" {
        ops_total::bomb_child(&args[2]);
        return;
    }
    let out_path = arg(&args, "--out").expect("--out");
    let mut out = Out::create(&out_path);
    match args[1].as_str() {
        "run" => {
            let vectors = read_lines(&arg(&args, "--in").expect("--in"));
            let mut wk: Option<worker::Worker> = None;
            for v in &vectors {
                // a panic that escapes an operation's own monitors: inside libhaystack it is data (a lib.panic event, which
                // the driver reports under the property being checked); inside the harness it is a tool error
                match util::guarded(|| dispatch(v, &mut out, &mut wk)) {
                    Ok(Ok(())) => {}
                    Ok(Err(e)) => {
                        eprintln!("TOOL-ERROR: {e} on vector {v}");
                        std::process::exit(2);
                    }
                    Err(p) => {
                        let at = util::last_panic_at();
                        if util::panic_in_library(&at) {
                            out.emit(serde_json::json!({"op":"lib.panic","vec_op":v["op"],"msg":util::short(&p),"at":at}));
                            wk = None;
                        } else {
                            eprintln!("TOOL-ERROR: harness panicked at {at}: {p} on vector {v}");
                            std::process::exit(2);
                        }
                    }
                }
            }
        }
        "rec" => {
            let dom = args[2].clone();
            let n: usize = arg(&args, "--n").and_then(|s| s.parse().ok()).unwrap_or(100);
            let seed: u64 = arg(&args, "--seed").and_then(|s| s.parse().ok()).unwrap_or(1);
            let depth: usize = arg(&args, "--depth").and_then(|s| s.parse().ok()).unwrap_or(3);
            let mut g = gen::Gen::new(seed);
            let recorded = util::guarded(|| match dom.as_str() {
                "zinc" => {
                    for _ in 0..n {
                        let v = g.value(depth);
                        let vj = absval::alpha(&v);
                        out.emit(ops_zinc::zinc_rt(&v, &vj));
                    }
                }
                "fuzz" => ops_total::rec_fuzz(&mut out, seed, n),
                "kinds" => ops_kinds::rec(&mut out, seed, n),
                "dis" => ops_dis::rec(&mut out, seed, n),
                "order" => ops_order::rec(&mut out, seed, n),
                "units" => ops_units::rec(&mut out, seed, n > 1),
                "capi" => {
                    let len: usize = arg(&args, "--len").and_then(|s| s.parse().ok()).unwrap_or(30);
                    ops_capi::rec(&mut out, seed, n, len);
                }
                "ns" => {
                    if let Err(e) = ops_ns::rec(&mut out, seed, n) {
                        eprintln!("TOOL-ERROR: {e}");
                        std::process::exit(2);
                    }
                }
                "defs" => {
                    if let Err(e) = ops_defs::rec(&mut out, seed, n) {
                        eprintln!("TOOL-ERROR: {e}");
                        std::process::exit(2);
                    }
                }
                "filterfuzz" => ops_filter::rec_fuzz(&mut out, seed, n),
                "time" => {
                    let per_zone: usize = arg(&args, "--per-zone").and_then(|s| s.parse().ok()).unwrap_or(8);
                    ops_time::rec(&mut out, seed, per_zone);
                    eprintln!("{}", ops_time::zone_census());
                }
                "hayson" => {
                    for _ in 0..n {
                        let v = g.value(depth);
                        let vj = absval::alpha(&v);
                        out.emit(ops_json::hayson_rt(&v, &vj));
                    }
                }
                _ => {
                    eprintln!("unknown domain {dom}");
                    std::process::exit(2);
                }
            });
            if let Err(p) = recorded {
                let at = util::last_panic_at();
                if util::panic_in_library(&at) {
                    out.emit(serde_json::json!({"op":"lib.panic","vec_op":format!("rec {dom}"),"msg":util::short(&p),"at":at}));
                } else {
                    eprintln!("TOOL-ERROR: harness panicked at {at}: {p} while recording {dom}");
                    std::process::exit(2);
                }
            }
        }
        _ => {
            eprintln!("unknown command");
            std::process::exit(2);
        }
    }
    let n = out.finish();
    println!("{}", json!({"events": n}));
}

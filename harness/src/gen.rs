//! Random generators of Haystack values far outside the model's small scope.
//! They only produce inputs; no verdict is taken here.

use crate::util::Rng;
use chrono::{Offset, TimeZone, Utc};
use chrono_tz::{Tz, TZ_VARIANTS};
use libhaystack::units::units_generated::UNITS;
use libhaystack::units::Unit;
use libhaystack::val::*;
use std::collections::BTreeMap;

pub fn all_units() -> Vec<&'static Unit> {
    let mut m: BTreeMap<String, &'static Unit> = BTreeMap::new();
    for (_, u) in UNITS.iter() {
        m.insert(u.ids.join(","), *u);
    }
    m.into_values().collect()
}

pub fn short_name(id: &str) -> &str {
    match id.find('/') {
        Some(i) => &id[i + 1..],
        None => id,
    }
}

fn offsets_signature(tz: &Tz, _step_h: i64) -> Vec<i64> {
    // exact offset function over 1980-2060: initial offset, then every (transition second, new offset)
    let off = |t: i64| tz.offset_from_utc_datetime(&Utc.timestamp_opt(t, 0).unwrap().naive_utc()).fix().local_minus_utc() as i64;
    let start = Utc.with_ymd_and_hms(1980, 1, 1, 0, 0, 0).unwrap().timestamp();
    let mut v = vec![off(start)];
    for t in crate::ops_time::transitions(tz) {
        v.push(t);
        v.push(off(t));
    }
    v
}

/// Zones of the bundled database whose short (city) name is unambiguous: no other zone id with the
/// same short name has a different offset function over 1980-2060 (offset changes located to the second by bisection over half-day steps).
pub fn unambiguous_zones() -> Vec<Tz> {
    let mut by_short: BTreeMap<String, Vec<Tz>> = BTreeMap::new();
    for tz in TZ_VARIANTS.iter() {
        by_short.entry(short_name(tz.name()).to_string()).or_default().push(*tz);
    }
    // a short name may also equal a full top-level id (e.g. "Jamaica" vs "America/Jamaica")
    let mut out = Vec::new();
    for (short, zones) in &by_short {
        let mut group: Vec<Tz> = zones.clone();
        if let Ok(top) = short.parse::<Tz>() {
            if !group.contains(&top) {
                group.push(top);
            }
        }
        if group.len() == 1 {
            out.push(group[0]);
            continue;
        }
        let sig0 = offsets_signature(&group[0], 6);
        if group.iter().skip(1).all(|z| offsets_signature(z, 6) == sig0) {
            out.extend(zones.iter().copied());
        }
    }
    out.sort_by_key(|z| z.name());
    out
}

pub struct Gen {
    pub rng: Rng,
    pub units: Vec<&'static Unit>,
    pub zones: Vec<Tz>,
}

const SPECIAL_CHARS: &[char] = &[
    'a', 'Z', '0', ' ', '"', '\\', '$', '`', '\n', '\t', '\r', '\u{8}', '\u{c}', '\u{1f}', '\u{0}', '\u{7f}', 'é',
    '€', '😀', '\u{10ffff}', '\'', '{', '}', '[', ']', '<', '>', ',', ':', '@', '^', '/', '#', '&', '=', ';', '?',
    '\u{80}', '\u{ff}', '\u{fffd}', '\u{d7ff}', '\u{e000}', '°', 'µ', '₂',
];

const SPECIAL_F64: &[f64] = &[
    0.0,
    -0.0,
    1.0,
    -1.0,
    -1.5,
    0.1,
    123456789.123,
    1e21,
    1e22,
    -1e21,
    1e-7,
    9007199254740993.0,
    9007199254740992.0,
    9223372036854775807.0,
    -9223372036854775808.0,
    1.8446744073709552e19,
    5e-324,
    2.2250738585072014e-308,
    1.7976931348623157e308,
    f64::NAN,
    f64::INFINITY,
    f64::NEG_INFINITY,
    1e15,
    1e16,
    123456.0,
    0.30000000000000004,
    4294967296.0,
    2147483648.0,
];

impl Gen {
    pub fn new(seed: u64) -> Gen {
        Gen {
            rng: Rng::new(seed),
            units: all_units(),
            zones: unambiguous_zones(),
        }
    }

    pub fn ch(&mut self, allow_controls: bool) -> char {
        loop {
            let c = match self.rng.below(10) {
                0..=3 => *self.rng.pick(SPECIAL_CHARS),
                4..=6 => (32 + self.rng.below(95)) as u8 as char,
                7 => char::from_u32(self.rng.below(0x800) as u32).unwrap_or('a'),
                8 => char::from_u32(self.rng.below(0x10000) as u32).unwrap_or('b'),
                _ => char::from_u32(0x10000 + self.rng.below(0x100000) as u32).unwrap_or('c'),
            };
            if allow_controls || (c as u32) >= 32 {
                return c;
            }
        }
    }

    pub fn text(&mut self, max: usize, allow_controls: bool) -> String {
        let n = if self.rng.chance(1, 8) { 0 } else { self.rng.below(max + 1) };
        (0..n).map(|_| self.ch(allow_controls)).collect()
    }

    pub fn tag_name(&mut self) -> String {
        let first = (b'a' + self.rng.below(26) as u8) as char;
        let n = self.rng.below(6);
        let mut s = String::from(first);
        for _ in 0..n {
            s.push(*self.rng.pick(&['a', 'b', 'z', 'A', 'Q', '0', '9', '_', 'c', 'D']));
        }
        s
    }

    pub fn id_body(&mut self, symbol: bool) -> String {
        let n = 1 + self.rng.below(12);
        let alphabet: Vec<char> = "abcxyzABCXYZ0123456789_:-.~".chars().collect();
        let mut s = String::new();
        for i in 0..n {
            if i == 0 && symbol {
                s.push((b'a' + self.rng.below(26) as u8) as char);
            } else {
                s.push(*self.rng.pick(&alphabet));
            }
        }
        s
    }

    pub fn f64(&mut self) -> f64 {
        match self.rng.below(10) {
            0..=3 => *self.rng.pick(SPECIAL_F64),
            4..=5 => f64::from_bits(self.rng.next()),
            6 => self.rng.range(-1_000_000, 1_000_000) as f64,
            7 => self.rng.range(-1_000_000_000, 1_000_000_000) as f64 / 1000.0,
            8 => {
                let m = self.rng.range(1, 9999) as f64;
                let e = self.rng.range(-30, 30) as i32;
                m * 10f64.powi(e)
            }
            _ => {
                // near-integers beyond i64
                let m = self.rng.range(1, 999) as f64;
                m * 10f64.powi(self.rng.range(15, 25) as i32)
            }
        }
    }

    pub fn finite(&mut self) -> f64 {
        loop {
            let f = self.f64();
            if f.is_finite() {
                return f;
            }
        }
    }

    pub fn number(&mut self) -> Number {
        let f = self.f64();
        if f.is_finite() && self.rng.chance(1, 2) {
            let u = *self.rng.pick(&self.units.clone());
            Number { value: f, unit: Some(u) }
        } else {
            Number::make(f)
        }
    }

    pub fn date(&mut self) -> Date {
        loop {
            let y = match self.rng.below(4) {
                0 => *self.rng.pick(&[0, 1, 9999, 1970, 2000, 1900, 2100, 400]),
                _ => self.rng.range(0, 9999) as i32,
            };
            if let Ok(d) = Date::from_ymd(y, self.rng.range(1, 12) as u32, self.rng.range(1, 31) as u32) {
                return d;
            }
        }
    }

    pub fn nanos(&mut self) -> u32 {
        match self.rng.below(5) {
            0 => 0,
            1 => self.rng.below(1000) as u32 * 1_000_000,
            2 => self.rng.below(1_000_000) as u32 * 1000,
            3 => self.rng.below(10) as u32 * 100_000_000,
            _ => self.rng.below(1_000_000_000) as u32,
        }
    }

    pub fn time(&mut self) -> Time {
        let t = chrono::NaiveTime::from_hms_nano_opt(
            self.rng.below(24) as u32,
            self.rng.below(60) as u32,
            self.rng.below(60) as u32,
            self.nanos(),
        )
        .unwrap();
        Time::from(t)
    }

    pub fn datetime(&mut self) -> DateTime {
        // built from the chrono value directly: no zone-name lookup is involved in constructing the input,
        // so a zone whose name the decoders cannot resolve shows up as a round-trip failure, not as a skipped input
        let tz = *self.rng.pick(&self.zones.clone());
        let secs = self.rng.range(315_532_800, 2_840_140_800); // 1980 .. 2060
        let utc = Utc.timestamp_opt(secs, self.nanos()).unwrap();
        DateTime::from(utc.with_timezone(&tz))
    }

    pub fn scalar(&mut self) -> Value {
        match self.rng.below(16) {
            0 => Value::Null,
            1 => Value::Marker,
            2 => Value::Remove,
            3 => Value::Na,
            4 => Value::make_bool(self.rng.chance(1, 2)),
            5 | 6 => Value::Number(self.number()),
            7 | 8 => Value::make_str(&self.text(40, true)),
            9 => Value::make_uri(&self.text(30, false)),
            10 => {
                let dis = if self.rng.chance(1, 2) { Some(self.text(20, true)) } else { None };
                Value::Ref(Ref { value: self.id_body(false), dis })
            }
            11 => Value::make_symbol(&self.id_body(true)),
            12 => Value::make_date(self.date()),
            13 => Value::make_time(self.time()),
            14 => Value::make_datetime(self.datetime()),
            _ => {
                if self.rng.chance(1, 2) {
                    Value::make_coord_from(self.finite(), self.finite())
                } else {
                    let mut t = String::from((b'A' + self.rng.below(26) as u8) as char);
                    for _ in 0..self.rng.below(5) {
                        t.push(*self.rng.pick(&['a', 'B', '1', '_', 'z']));
                    }
                    Value::make_xstr_from(&t, &self.text(20, true))
                }
            }
        }
    }

    pub fn dict(&mut self, depth: usize, max: usize) -> Dict {
        let mut d = Dict::new();
        for _ in 0..self.rng.below(max + 1) {
            let name = self.tag_name();
            let v = self.value(depth);
            d.insert(name, v);
        }
        d
    }

    pub fn grid(&mut self, depth: usize) -> Grid {
        let ncols = 1 + self.rng.below(6);
        let mut names: Vec<String> = Vec::new();
        while names.len() < ncols {
            let n = self.tag_name();
            if !names.contains(&n) {
                names.push(n);
            }
        }
        let columns: Vec<Column> = names
            .iter()
            .map(|n| Column {
                name: n.clone(),
                meta: if self.rng.chance(1, 3) {
                    let d = self.dict(depth, 2);
                    if d.is_empty() {
                        None
                    } else {
                        Some(d)
                    }
                } else {
                    None
                },
            })
            .collect();
        let nrows = self.rng.below(7);
        let mut rows = Vec::new();
        for _ in 0..nrows {
            let mut r = Dict::new();
            for n in &names {
                match self.rng.below(6) {
                    0 => {}
                    1 => {
                        r.insert(n.clone(), Value::Null);
                    }
                    _ => {
                        let v = self.value(depth);
                        r.insert(n.clone(), v);
                    }
                }
            }
            rows.push(r);
        }
        let meta = if self.rng.chance(1, 2) {
            let d = self.dict(depth, 3);
            if d.is_empty() {
                None
            } else {
                Some(d)
            }
        } else {
            None
        };
        Grid {
            meta,
            columns,
            rows,
            ver: "3.0".into(),
        }
    }

    /// a well-formed value of nesting depth <= depth
    pub fn value(&mut self, depth: usize) -> Value {
        if depth == 0 || self.rng.chance(3, 5) {
            return self.scalar();
        }
        match self.rng.below(3) {
            0 => {
                let n = self.rng.below(5);
                Value::make_list((0..n).map(|_| self.value(depth - 1)).collect())
            }
            1 => Value::make_dict(self.dict(depth - 1, 4)),
            _ => Value::make_grid(self.grid(depth - 1)),
        }
    }
}
